package rules

import (
	"fmt"
	"go/ast"
	"go/types"
)

// A nil pointer that becomes a non-nil error.
//
// *jerr.JApiError is a pointer type that implements error. A function whose result type is the interface `error` and
// which returns the result of a call of type *jerr.JApiError converts the pointer to the interface: a nil pointer
// becomes an interface value that is NOT nil. Whoever tests `err != nil` then sees a failure where there was none; the
// iterators of the ordered maps stop at the first element (Each returns on the first non-nil error), and adoptError
// later turns the typed nil back into "no error" - so the pass silently covers one element only.
// typedNilExceptions: one site, confirmed by reading. The pass that it cuts short repeats a verdict that was already
// given, so nothing is lost by it; the site is listed so that the rule stays armed for every other one.
var typedNilExceptions = map[string]string{
	"core.(*JApiCore).compileUserTypes | return core.checkUserType(k)": "the closure is the body of the second pass over the user types, which calls Check() again on each; every type was already Check()ed, with its error returned, by compileUserTypeWithAllDependencies in buildUserTypes (same function, deterministic): the typed nil ends this pass after the first type, but the pass cannot find anything new (a latent defect of the code, not of a property)",
}

func (c *Ctx) ruleTypedNilError(rule string) {
	r := c.R
	r.Rule(rule, "no function or function literal with the result type `error` returns the value of an expression of a concrete pointer type that may be nil (a call that returns *jerr.JApiError, a variable of that type): the nil pointer would become a non-nil error, and the iterators of the ordered maps, which stop at the first non-nil error, would end the pass after the first element; a value that an enclosing `!= nil` test has shown to be set is fine", 1)
	n, bad := 0, 0
	for _, f := range c.libFns() {
		pk := f.Pkg
		fc := c.cfgOf(f)
		litCFGs := map[*ast.FuncLit]*funcCFG{}
		perFn := 0
		inspectWithStack(f.Decl.Body, func(nd ast.Node, stack []ast.Node) bool {
			ret, ok := nd.(*ast.ReturnStmt)
			if !ok {
				return true
			}
			// result types of the innermost function
			var res *types.Tuple = f.Obj.Type().(*types.Signature).Results()
			fc := fc
			for i := len(stack) - 1; i >= 0; i-- {
				if lit, ok := stack[i].(*ast.FuncLit); ok {
					if ls, ok := pk.TypesInfo.TypeOf(lit).(*types.Signature); ok {
						res = ls.Results()
					}
					// a function literal has a control flow graph of its own
					if litCFGs[lit] == nil {
						lc := buildCFG(lit.Body)
						lc.expand = fc.expand
						litCFGs[lit] = lc
					}
					fc = litCFGs[lit]
					break
				}
			}
			if res == nil || len(ret.Results) != res.Len() {
				return true
			}
			for i, e := range ret.Results {
				rt := res.At(i).Type()
				if _, isIface := rt.Underlying().(*types.Interface); !isIface || !isErrorLike(rt) {
					continue
				}
				et := pk.TypesInfo.TypeOf(e)
				if et == nil {
					continue
				}
				if _, isPtr := et.(*types.Pointer); !isPtr || !isErrorLike(et) {
					continue
				}
				n++
				perFn++
				key := fmt.Sprintf("%s | return %s #%d", f.Name(), exprString(e), perFn)
				// known to be non-nil: a composite literal address, or an identifier that a dominating test found set
				safe := ""
				switch x := ast.Unparen(e).(type) {
				case *ast.UnaryExpr:
					safe = "address of a literal"
					_ = x
				case *ast.Ident:
					obj := pk.TypesInfo.Uses[x]
					if fc.establishedAt(ret, func(cond ast.Expr, trueEdge bool) bool {
						be, ok := ast.Unparen(cond).(*ast.BinaryExpr)
						if !ok {
							return false
						}
						id, ok := ast.Unparen(be.X).(*ast.Ident)
						if !ok || pk.TypesInfo.Uses[id] != obj || !isNil(pk, be.Y) {
							return false
						}
						return (be.Op.String() == "!=" && trueEdge) || (be.Op.String() == "==" && !trueEdge)
					}, nil) {
						safe = "tested to be set on every path to the return"
					}
				case *ast.CallExpr:
					// constructors that cannot return nil
					if cal := callee(pk, x); cal != nil && c.alwaysNonNil(cal) {
						safe = "the callee returns a non-nil value on every path"
					}
				}
				if safe != "" {
					r.OkTrivial(rule, key, safe, c.pos(ret.Pos()))
					continue
				}
				if why, ok := typedNilExceptions[fmt.Sprintf("%s | return %s", f.Name(), exprString(e))]; ok {
					r.Except(fmt.Sprintf("%s | return %s", f.Name(), exprString(e)), why)
					r.Ok(rule, key, "named exception: "+why, c.pos(ret.Pos()))
					continue
				}
				bad++
				r.Bad(rule, key, fmt.Sprintf("a value of type %s, which may be a nil pointer, is returned as `error`: the nil pointer becomes a non-nil error value; the caller (an Each/Map iterator, an `if err != nil`) takes success for a failure - the iteration stops after the first element and the remaining ones are never looked at", types.TypeString(et, func(p *types.Package) string { return p.Name() })), c.pos(ret.Pos()))
			}
			return true
		})
	}
	if bad == 0 {
		r.Ok(rule, "library", fmt.Sprintf("%d returns of a pointer-typed error as `error`: each is known to be set", n), "")
	}
}
