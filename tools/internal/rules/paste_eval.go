package rules

import (
	"fmt"
	"regexp"
	"strings"

	"golang.org/x/tools/go/ssa"

	"jsverif/internal/ssaeval"
)

// The handler of one PASTE on E8. processPasteDirective is evaluated abstractly with the helpers that only it calls
// inlined (a block moved into `pastedMacro(paste) (*Directive, error)` is seen through), the accessors of package
// directive followed, and everything else - the expansion walk, the collection of rules, the error constructors - kept
// as opaque calls whose terms name what they were given. The outcomes then say, whatever the layout of the code:
// which decided conditions lead to which result, and which body (a term over the macro table) is handed to which
// call in which order.

type pasteEval struct {
	outs  []ssaeval.Outcome
	table string // term prefix of the macro table: L(core.<field>)
	why   string
}

func (c *Ctx) pasteHandlerOutcomes() *pasteEval {
	if c.pasteE != nil {
		return c.pasteE
	}
	pe := &pasteEval{}
	c.pasteE = pe
	f := c.pasteRoles().pasteDirective
	table := c.macroTableField()
	if f == nil || table == nil {
		pe.why = "the handler of PASTE or the macro table was not found"
		return pe
	}
	sf := c.P.SSAFunc(f.Obj)
	if sf == nil {
		pe.why = "no SSA form of the handler"
		return pe
	}
	walk := c.pasteRoles().walk
	var stop []*Fn
	if walk != nil {
		stop = append(stop, walk)
	}
	ev := c.ownHelpersEval(f, []string{"directive"}, stop)
	var args []ssaeval.Value
	for _, p := range sf.Params {
		args = append(args, ssaeval.Obj(p.Name()))
	}
	pe.outs = ev.Run(sf, args)
	if len(sf.Params) > 0 {
		pe.table = "L(" + sf.Params[0].Name() + "." + table.Name() + ")"
	}
	for _, o := range pe.outs {
		if o.Incomplete != "" {
			pe.why = "the abstract evaluation of the handler is incomplete: " + o.Incomplete
		}
	}
	return pe
}

var hasCondRe = regexp.MustCompile(`^has\((.*),(.*)\)$`)

// lookupKey: the key term of the membership test of the macro table decided on this path, and how it was decided.
func (pe *pasteEval) lookupKey(o ssaeval.Outcome) (key string, hit, found bool) {
	for _, cd := range o.Conds {
		t := stripEpochs(cd.Term)
		if !strings.HasPrefix(t, "has("+pe.table+",") {
			continue
		}
		return strings.TrimSuffix(strings.TrimPrefix(t, "has("+pe.table+","), ")"), cd.Taken, true
	}
	return "", false, false
}

func returnsNonNil(o ssaeval.Outcome) bool {
	if len(o.Rets) == 0 {
		return false
	}
	isNil, known := o.Rets[len(o.Rets)-1].IsNilKnown()
	return known && !isNil
}

// undefinedRejectedE8: "" / what is wrong; und non-empty when E8 cannot tell.
func (c *Ctx) undefinedRejectedE8() (missOK, emptyOK bool, detail, und string) {
	pe := c.pasteHandlerOutcomes()
	if pe.why != "" {
		return false, false, "", pe.why
	}
	nMiss, nHit := 0, 0
	missOK, emptyOK = true, true
	for _, o := range pe.outs {
		key, hit, found := pe.lookupKey(o)
		if found {
			if hit {
				nHit++
			} else {
				nMiss++
				if !returnsNonNil(o) {
					missOK = false
					detail = "a path on which the name is missing in the macro table does not return an error"
				}
			}
			// the name was found non-empty before the table was asked
			nonEmpty := false
			for _, cd := range o.Conds {
				t := stripEpochs(cd.Term)
				if (t == `==(`+key+`,"")` && !cd.Taken) || (t == `!=(`+key+`,"")` && cd.Taken) {
					nonEmpty = true
				}
			}
			if !nonEmpty {
				emptyOK = false
				detail = "the macro table is asked for a name that was not found non-empty first"
			}
			continue
		}
		// paths that never reach the lookup: if they decided "the name is empty" they must fail
		for _, cd := range o.Conds {
			t := stripEpochs(cd.Term)
			if strings.HasSuffix(t, `,"")`) && strings.HasPrefix(t, "==(") && cd.Taken && strings.Contains(t, `"Name"`) && !returnsNonNil(o) {
				emptyOK = false
				detail = "a path on which the PASTE name is empty does not return an error"
			}
		}
	}
	if nMiss == 0 || nHit == 0 {
		return false, false, "", fmt.Sprintf("the membership test of the macro table was not found on the paths of the handler (%d miss, %d hit)", nMiss, nHit)
	}
	return missOK, emptyOK, detail, ""
}

// rulesBeforeExpansionE8: on every path that hands a body taken from the macro table to the expansion walk, the
// collection of rules was called with the same body before. Returns the number of expanding paths, or und.
func (c *Ctx) rulesBeforeExpansionE8() (n int, bad string, und string) {
	pe := c.pasteHandlerOutcomes()
	if pe.why != "" {
		return 0, "", pe.why
	}
	walk := c.pasteRoles().walk
	collect := c.P.LookupFunc("core", "JApiCore.collectRulesFromDirectives")
	if walk == nil || collect == nil {
		return 0, "", "the expansion walk or the rule collector was not found"
	}
	walkName := c.P.SSAFunc(walk.Obj).String()
	collName := c.P.SSAFunc(collect).String()
	bodyRe := regexp.MustCompile(regexp.QuoteMeta(walkName) + `\([^,]*,(L\(` + regexp.QuoteMeta(pe.table) + `\[.*?\]\.Children\))\)`)
	for _, o := range pe.outs {
		// the walk's call term shows in the returned value or in a decided condition
		var texts []string
		for _, rv := range o.Rets {
			texts = append(texts, stripEpochs(rv.Term()))
		}
		for _, cd := range o.Conds {
			texts = append(texts, stripEpochs(cd.Term))
		}
		for _, t := range texts {
			m := bodyRe.FindStringSubmatch(t)
			if m == nil {
				continue
			}
			n++
			want := collName + "("
			ok := false
			for _, cd := range o.Conds {
				ct := stripEpochs(cd.Term)
				if strings.Contains(ct, want) && strings.Contains(ct, ","+m[1]+")") {
					ok = true
				}
			}
			if !ok {
				bad = "a path hands the body " + trunc(m[1], 80) + " to the expansion without the rules of that body having been collected before"
			}
		}
	}
	return n, bad, ""
}

// ownHelpersEval: an evaluator for f that inlines the helpers that only f calls (so a block moved into a helper with
// several results is seen through) and the functions of the named packages, and keeps everything else opaque.
func (c *Ctx) ownHelpersEval(f *Fn, followPkgs []string, stop []*Fn) *ssaeval.Eval {
	ev := c.newEval()
	inner := ev.Follow
	ev.Follow = func(fn *ssa.Function) bool {
		if !inner(fn) {
			return false
		}
		o := fn
		if fn.Origin() != nil {
			o = fn.Origin()
		}
		for o.Parent() != nil {
			o = o.Parent()
		}
		if o.Pkg == nil || o.Pkg.Pkg == nil {
			return false
		}
		for _, p := range followPkgs {
			if o.Pkg.Pkg.Name() == p {
				return true
			}
		}
		for _, s := range stop {
			if c.P.SSAFunc(s.Obj) == o {
				return false
			}
		}
		g := c.fnOf(declOf(o))
		if g == nil || g.Pkg != f.Pkg {
			return false
		}
		sites, closed := c.callersOf(g)
		if !closed || len(sites) == 0 {
			return false
		}
		for _, cs := range sites {
			if cs.g.Obj != f.Obj {
				return false
			}
		}
		return true
	}
	return ev
}
