package rules

import (
	"fmt"
	"go/ast"
	"go/importer"
	"go/parser"
	"go/token"
	"go/types"
	"sort"
)

// A per-element flag that is not reset for every element.
//
// A local declared before a loop and tested inside it is either carried on purpose (tested before the round touches it:
// "first", "seen any") or meant for the element of the round (assigned, then tested). A variable that is BOTH at one
// and the same test - on some paths through the round it was assigned before the test, on others it still holds what
// an earlier element left - decides about this element with the verdict on another one. The walk is structural: the
// set {assigned in this round, not assigned in this round} is pushed through the statements of the loop body.

const (
	lfAssigned = 1 << iota
	lfCarried
)

type loopFlagFinding struct {
	name string
	pos  token.Pos
}

func loopFlagFindings(info *types.Info, body *ast.BlockStmt) []loopFlagFinding {
	var out []loopFlagFinding
	var inFunc func(n ast.Node)
	check := func(loopBody *ast.BlockStmt, loop ast.Node) {
		// candidates: variables declared outside the loop (not package level), of basic type, assigned and read inside
		cands := map[types.Object]bool{}
		ast.Inspect(loopBody, func(n ast.Node) bool {
			if as, ok := n.(*ast.AssignStmt); ok && as.Tok == token.ASSIGN {
				for _, l := range as.Lhs {
					if id, ok := l.(*ast.Ident); ok {
						if o, ok := info.Uses[id].(*types.Var); ok && !o.IsField() && o.Parent() != nil && o.Parent() != o.Pkg().Scope() {
							if _, basic := o.Type().Underlying().(*types.Basic); basic && !(loop.Pos() <= o.Pos() && o.Pos() <= loop.End()) {
								cands[o] = true
							}
						}
					}
				}
			}
			return true
		})
		var objs []types.Object
		for o := range cands {
			objs = append(objs, o)
		}
		sort.Slice(objs, func(i, j int) bool { return objs[i].Pos() < objs[j].Pos() })
		for _, obj := range objs {
			mixedAt := token.NoPos
			reads := func(e ast.Node, st int) {
				if e == nil || mixedAt != token.NoPos {
					return
				}
				ast.Inspect(e, func(n ast.Node) bool {
					if _, isLit := n.(*ast.FuncLit); isLit {
						return false
					}
					if id, ok := n.(*ast.Ident); ok && info.Uses[id] == obj && st == lfAssigned|lfCarried && mixedAt == token.NoPos {
						mixedAt = id.Pos()
					}
					return true
				})
			}
			var walk func(list []ast.Stmt, st int) int // returns the state set after the list (0: no path falls through)
			walk = func(list []ast.Stmt, st int) int {
				for _, s := range list {
					if st == 0 {
						return 0
					}
					switch x := s.(type) {
					case *ast.AssignStmt:
						for _, r := range x.Rhs {
							reads(r, st)
						}
						for _, l := range x.Lhs {
							if id, ok := l.(*ast.Ident); ok && (info.Uses[id] == obj) {
								if x.Tok == token.ASSIGN {
									st = lfAssigned
								} else {
									reads(id, st)
								}
							} else {
								reads(l, st)
							}
						}
					case *ast.IfStmt:
						if x.Init != nil {
							st = walk([]ast.Stmt{x.Init}, st)
						}
						reads(x.Cond, st)
						a := walk(x.Body.List, st)
						b := st
						switch e := x.Else.(type) {
						case *ast.BlockStmt:
							b = walk(e.List, st)
						case *ast.IfStmt:
							b = walk([]ast.Stmt{e}, st)
						}
						st = a | b
					case *ast.SwitchStmt:
						if x.Init != nil {
							st = walk([]ast.Stmt{x.Init}, st)
						}
						reads(x.Tag, st)
						res, hasDef := 0, false
						for _, cl := range x.Body.List {
							cc := cl.(*ast.CaseClause)
							if cc.List == nil {
								hasDef = true
							}
							for _, e := range cc.List {
								reads(e, st)
							}
							res |= walk(cc.Body, st)
						}
						if !hasDef {
							res |= st
						}
						st = res
					case *ast.TypeSwitchStmt:
						res, hasDef := 0, false
						for _, cl := range x.Body.List {
							cc := cl.(*ast.CaseClause)
							if cc.List == nil {
								hasDef = true
							}
							res |= walk(cc.Body, st)
						}
						if !hasDef {
							res |= st
						}
						st = res
					case *ast.BlockStmt:
						st = walk(x.List, st)
					case *ast.ForStmt:
						reads(x.Cond, st)
						st |= walk(x.Body.List, st)
					case *ast.RangeStmt:
						reads(x.X, st)
						st |= walk(x.Body.List, st)
					case *ast.BranchStmt, *ast.ReturnStmt:
						if r, ok := x.(*ast.ReturnStmt); ok {
							for _, e := range r.Results {
								reads(e, st)
							}
						}
						return 0
					case *ast.ExprStmt:
						reads(x.X, st)
						if call, ok := x.X.(*ast.CallExpr); ok {
							if id, ok := call.Fun.(*ast.Ident); ok && id.Name == "panic" {
								return 0
							}
						}
					case *ast.IncDecStmt:
						reads(x.X, st)
					case *ast.DeclStmt:
						reads(x, st)
					case *ast.LabeledStmt:
						st = walk([]ast.Stmt{x.Stmt}, st)
					default:
						reads(s, st)
					}
				}
				return st
			}
			walk(loopBody.List, lfCarried)
			if mixedAt != token.NoPos {
				out = append(out, loopFlagFinding{obj.Name(), mixedAt})
			}
		}
	}
	inFunc = func(n ast.Node) {
		ast.Inspect(n, func(m ast.Node) bool {
			switch x := m.(type) {
			case *ast.ForStmt:
				check(x.Body, x)
			case *ast.RangeStmt:
				check(x.Body, x)
			}
			return true
		})
	}
	inFunc(body)
	return out
}

func loopFlagSelfTest() string {
	src := `package p
func bad(xs []int) int {
	n := 0
	var used bool
	for _, x := range xs {
		switch {
		case x > 10:
			used = x%2 == 0
		case x > 5:
			if x == 7 {
				used = true
			}
		default:
			continue
		}
		if used {
			continue
		}
		n++
	}
	return n
}
func good(xs []int) string {
	s, first := "", true
	for range xs {
		if !first {
			s += ","
		}
		first = false
	}
	return s
}
`
	fset := token.NewFileSet()
	f, err := parser.ParseFile(fset, "selftest.go", src, 0)
	if err != nil {
		return "self-test does not parse"
	}
	info := &types.Info{Types: map[ast.Expr]types.TypeAndValue{}, Uses: map[*ast.Ident]types.Object{}, Defs: map[*ast.Ident]types.Object{}}
	conf := types.Config{Importer: importer.Default()}
	if _, err := conf.Check("p", fset, []*ast.File{f}, info); err != nil {
		return "self-test does not type-check: " + err.Error()
	}
	got := map[string]int{}
	for _, d := range f.Decls {
		if fd, ok := d.(*ast.FuncDecl); ok {
			got[fd.Name.Name] = len(loopFlagFindings(info, fd.Body))
		}
	}
	if got["bad"] != 1 || got["good"] != 0 {
		return fmt.Sprintf("self-test: bad=%d (want 1) good=%d (want 0)", got["bad"], got["good"])
	}
	return ""
}

func (c *Ctx) ruleLoopFlags(rule string) {
	r := c.R
	r.Rule(rule, "no local declared before a loop is tested inside the loop at a point that some paths of the round reach after assigning it and others reach with the value an earlier round left (expected count 0; the matcher is shown to find its built-in example and to pass the 'first element' idiom on every run): a verdict about one directive must not leak into the next", 1)
	if msg := loopFlagSelfTest(); msg != "" {
		r.Undecided(rule, "self-test", msg, "")
		return
	}
	n := 0
	for _, f := range c.libFns() {
		for _, fd := range loopFlagFindings(f.Pkg.TypesInfo, f.Decl.Body) {
			n++
			r.Bad(rule, f.Name()+" | "+fd.name, "the variable is assigned for some elements of the loop and, for the others, still holds what an earlier element left when it is tested here: the decision about this element is taken with the verdict on another one", c.pos(fd.pos))
		}
	}
	if n == 0 {
		r.Ok(rule, "library", "no such variable; the built-in example is found", "")
	}
}
