package rules

import (
	"fmt"
	"go/ast"
	"go/token"
	"go/types"
	"sort"
	"strings"

	"golang.org/x/tools/go/packages"
	"jsverif/internal/prog"
)

func init() {
	register("C02", propC02, false, false)
	register("C05", propC05, false, false)
}

func propC02(c *Ctx) {
	c.R.Explanation = "The round trip 'catalog == model' quantifies over runtime values and is not decided. Decided are necessary conditions named by the property: (a) parameter keys: every key written by AppendParameter for a kind is read by that kind's consumer and every key read is written (writer/reader table agreement); (b) every directive kind has a handler in the dispatch table or a collector that branches on it; (c) ordered maps emit in document order; (d) Body/Headers attach to the LAST response of the interaction whose id is derived from the same directive; (e) a method's own Tags take precedence over the Tags of its URL; plus the context-resolution structure shared with C11 and the expansion discipline shared with C10."
	c.ruleParamKeys()
	c.ruleHandlerExhaustive()
	c.ruleDocOrder("C02-DOC-ORDER")
	c.ruleLastResponse()
	c.ruleTagPriority("C02-TAG-PRIORITY")
	c.ruleC11WalkUp()
	c.ruleC10CopyReset()
	c.ruleC10Cycle() // a legal (acyclic) macro graph must not be rejected, a cyclic one must
	c.ruleUnquote()  // a quoted and a bare rendering of one parameter must read the same
	// the catalog's annotations and descriptions are the model's texts passed through two normalisers: they must
	// collapse line ends and ASCII blanks only (a Unicode space inside an annotation is text)
	c.ruleNormalisers()
	// two directives of one resource may come in either order (Protocol/Method, Query/Request ...): a set that one
	// handler fills must not be a prerequisite of a sibling's handler in the same pass
	c.nsOnlyFields = true
	c.ruleCollectBeforeUse()
	c.nsOnlyFields = false
	// what is computed for one directive must not be handed to another: memo keys cover what the value depends on,
	// and a position identifies a body only together with its file
	c.ruleMemoCoverage("C02-MEMO-KEY-COVERS")
	c.rulePositionNeedsFile("C02-POSITION-NEEDS-FILE")
	// explicit '( )' against implicit context: the parenthesis is layout, for the core and for the scanner
	c.ruleOpenForEveryKind("C02-OPEN-FOR-EVERY-KIND")
	c.ruleRulesEverywhere("C02-RULES-EVERYWHERE")
	c.ruleDTOFieldsFilled("C02-DTO-FIELDS-FILLED")
	c.ruleParamNotGated("C02-PARAM-NOT-GATED")
	c.ruleWalkEveryContainer("C02-WALK-EVERY-CONTAINER")
	c.ruleWalkResultDiscarded("C02-WALK-RESULT-DISCARDED")
	c.rulePlaceWhenComplete("C02-PLACE-WHEN-COMPLETE")
	c.ruleLoopsCoverAll("C02-LOOPS-COVER-ALL")
	if m := c.E1Base(); m != nil {
		c.ruleOpenTransparent(m, "C02-OPEN-TRANSPARENT")
		// a line comment must end at the end of its line: otherwise the directives behind it are missing from the catalog
		c.R.Only = func(rule string) bool { return rule == "C08-COMMENT-FENCE" || rule == "C08-COMMENT-RETURN" }
		c.ruleC08Scanner(m)
		c.R.Only = nil
	}
}

// ---------- parameter keys ----------

func (c *Ctx) ruleParamKeys() {
	r := c.R
	r.Rule("C02-PARAM-KEYS", "writers: SetNamedParameter(\"k\")/AppendUnnamedParameter per case of the kind switch in directive.AppendParameter; readers: NamedParameter(\"k\")/UnnamedParameter() in library code. Every written key is read somewhere, every read key is written for some kind, and a reader in a handler that is only invoked for kinds KS reads a key that is written for at least one kind of KS", 15)
	ap := c.fn("directive", "Directive.AppendParameter")
	if ap == nil {
		r.Undecided("C02-PARAM-KEYS", "anchor", "directive.(*Directive).AppendParameter not found", "")
		return
	}
	pk := ap.Pkg
	written := map[string]map[string]bool{} // key -> kinds
	unnamedKinds := map[string]bool{}
	var sw *ast.SwitchStmt
	ast.Inspect(ap.Decl.Body, func(n ast.Node) bool {
		if s, ok := n.(*ast.SwitchStmt); ok && sw == nil && s.Tag != nil {
			if call, ok := ast.Unparen(s.Tag).(*ast.CallExpr); ok {
				if cal := callee(pk, call); cal != nil && cal.Name() == "Type" {
					sw = s
				}
			}
		}
		return true
	})
	if sw == nil {
		r.Undecided("C02-PARAM-KEYS", "writers", "no switch over d.Type() in AppendParameter", c.pos(ap.Decl.Pos()))
		return
	}
	for _, cs := range sw.Body.List {
		cc := cs.(*ast.CaseClause)
		var kinds []string
		for _, e := range cc.List {
			if k := constObj(pk, e); k != nil {
				kinds = append(kinds, k.Name())
			}
		}
		for _, st := range cc.Body {
			ast.Inspect(st, func(n ast.Node) bool {
				call, ok := n.(*ast.CallExpr)
				if !ok {
					return true
				}
				cal := callee(pk, call)
				if cal == nil {
					return true
				}
				switch cal.Name() {
				case "SetNamedParameter":
					if ks, ok := c.possibleStrings(ap, call.Args[0], nil, 0); ok && len(ks) > 0 {
						for _, k := range ks {
							if written[k] == nil {
								written[k] = map[string]bool{}
							}
							for _, kd := range kinds {
								written[k][kd] = true
							}
						}
					} else {
						r.Undecided("C02-PARAM-KEYS", "writer with a non-constant key", exprString(call), c.pos(call.Pos()))
					}
				case "AppendUnnamedParameter":
					for _, kd := range kinds {
						unnamedKinds[kd] = true
					}
				}
				return true
			})
		}
	}
	// readers
	type reader struct {
		f   *Fn
		key string
		pos token.Pos
		own bool // receiver is the function's own directive parameter/receiver
	}
	var readers []reader
	unnamedRead := false
	kindsOf := c.handlerKinds()
	for _, f := range c.libFns() {
		fp := f.Pkg
		dparam := directiveParam(f)
		var recvObj types.Object
		if f.Decl.Recv != nil && len(f.Decl.Recv.List) == 1 && len(f.Decl.Recv.List[0].Names) == 1 {
			recvObj = fp.TypesInfo.Defs[f.Decl.Recv.List[0].Names[0]]
		}
		ast.Inspect(f.Decl.Body, func(n ast.Node) bool {
			call, ok := n.(*ast.CallExpr)
			if !ok {
				return true
			}
			cal := callee(fp, call)
			if cal == nil || cal.Pkg() == nil || cal.Pkg().Path() != prog.ModulePath+"/directive" {
				return true
			}
			switch cal.Name() {
			case "NamedParameter":
				k, ok := constString(fp, call.Args[0])
				if !ok {
					// the key is a parameter of a helper (`requiredParameter(d, "Title")`): the readers are its call sites,
					// each with the constant it hands in and the directive it hands in
					if ki := paramIndexOf(f, call.Args[0]); ki >= 0 && !paramAssigned(f, call.Args[0]) {
						di := -1
						if sel, isSel := ast.Unparen(call.Fun).(*ast.SelectorExpr); isSel {
							di = paramIndexOf(f, sel.X)
						}
						if sites, closed := c.callersOf(f); closed && len(sites) > 0 {
							all := true
							var lifted []reader
							for _, cs := range sites {
								ka := argFor(cs, ki)
								kk, isConst := "", false
								if ka != nil {
									kk, isConst = constString(cs.g.Pkg, ka)
								}
								if !isConst {
									all = false
									break
								}
								own := false
								if di >= 0 {
									if da := argFor(cs, di); da != nil {
										if id, isId := ast.Unparen(da).(*ast.Ident); isId {
											o := cs.g.Pkg.TypesInfo.Uses[id]
											own = o != nil && o == directiveParam(cs.g)
										}
									}
								}
								lifted = append(lifted, reader{cs.g, kk, cs.call.Pos(), own})
							}
							if all {
								readers = append(readers, lifted...)
								return true
							}
						}
					}
					if f.Obj.Name() != "NamedParameter" {
						r.Undecided("C02-PARAM-KEYS", "reader with a non-constant key in "+f.Name(), exprString(call), c.pos(call.Pos()))
					}
					return true
				}
				own := false
				if sel, ok := ast.Unparen(call.Fun).(*ast.SelectorExpr); ok {
					if id, ok := ast.Unparen(sel.X).(*ast.Ident); ok {
						o := fp.TypesInfo.Uses[id]
						own = o != nil && (o == dparam || o == recvObj)
					}
				}
				readers = append(readers, reader{f, k, call.Pos(), own})
			case "UnnamedParameter", "HasUnnamedParameter":
				unnamedRead = true
			}
			return true
		})
	}
	read := map[string]bool{}
	for _, rd := range readers {
		read[rd.key] = true
	}
	var wk []string
	for k := range written {
		wk = append(wk, k)
	}
	sort.Strings(wk)
	for _, k := range wk {
		if read[k] {
			r.Ok("C02-PARAM-KEYS", "written key "+k, fmt.Sprintf("written for %v and read in the library", keysOf(written[k])), c.pos(ap.Decl.Pos()))
		} else {
			r.Bad("C02-PARAM-KEYS", "written key "+k, fmt.Sprintf("the parameter key %q is stored for %v but nothing reads it: the value given in the document never reaches the catalog", k, keysOf(written[k])), c.pos(ap.Decl.Pos()))
		}
	}
	seen := map[string]bool{}
	for _, rd := range readers {
		key := fmt.Sprintf("%s reads %s", rd.f.Name(), rd.key)
		if seen[key] {
			continue
		}
		seen[key] = true
		ks, isWritten := written[rd.key]
		if !isWritten {
			r.Bad("C02-PARAM-KEYS", key, fmt.Sprintf("the key %q is read but AppendParameter never writes it: the reader always sees the empty string", rd.key), c.pos(rd.pos))
			continue
		}
		hk := kindsOf[rd.f.Obj]
		if rd.own && len(hk) > 0 {
			match := false
			for k := range hk {
				if ks[k] {
					match = true
				}
			}
			if !match {
				r.Bad("C02-PARAM-KEYS", key, fmt.Sprintf("the handler is invoked for kinds %v but %q is only written for %v: the lookup can never succeed here", keysOf(hk), rd.key, keysOf(ks)), c.pos(rd.pos))
				continue
			}
			r.Ok("C02-PARAM-KEYS", key, fmt.Sprintf("written for %v, handler invoked for %v", keysOf(ks), keysOf(hk)), c.pos(rd.pos))
			continue
		}
		r.Ok("C02-PARAM-KEYS", key, fmt.Sprintf("written for %v", keysOf(ks)), c.pos(rd.pos))
	}
	if len(unnamedKinds) > 0 {
		if unnamedRead {
			r.Ok("C02-PARAM-KEYS", "unnamed parameters", fmt.Sprintf("appended for %v and read in the library", keysOf(unnamedKinds)), c.pos(ap.Decl.Pos()))
		} else {
			r.Bad("C02-PARAM-KEYS", "unnamed parameters", "unnamed parameters are stored but never read", c.pos(ap.Decl.Pos()))
		}
	}
	// every kind has a case (or is parameterless by the language): kinds without a case get the IncorrectParameter error for any parameter
	t := c.Tables()
	covered := map[string]bool{}
	for _, cs := range sw.Body.List {
		for _, e := range cs.(*ast.CaseClause).List {
			if k := constObj(pk, e); k != nil {
				covered[k.Name()] = true
			}
		}
	}
	parameterless := map[string]bool{"Info": true, "Description": true, "Headers": true, "Path": true, "Include": true, "Params": true, "Result": true}
	for kind := range t.Consts {
		switch {
		case covered[kind]:
		case parameterless[kind]:
			r.OkTrivial("C02-PARAM-KEYS", "kind "+kind+" takes no parameter", "no case in AppendParameter: any parameter is an error (INCLUDE's file name is read by the scan loop)", c.pos(ap.Decl.Pos()))
		default:
			r.Bad("C02-PARAM-KEYS", "kind "+kind+" has no case", "AppendParameter rejects every parameter of this kind although the language gives it parameters", c.pos(ap.Decl.Pos()))
		}
	}
}

// ---------- handler exhaustiveness ----------

func (c *Ctx) ruleHandlerExhaustive() {
	r := c.R
	r.Rule("C02-HANDLER-EXHAUSTIVE", "every Enumeration constant is a key of the directiveFunctions literal or is consumed by code that compares a directive's Type() with it (case or ==) in a function reachable from the build entry points", 25)
	t := c.Tables()
	reach := reachDecls(c.reachableLib(c.ssaRoots(buildRoots...), nil))
	compared := map[string]string{}
	for _, f := range c.libFns() {
		if !reach[f.Obj] || f.Pkg.PkgPath == prog.ModulePath+"/directive" {
			continue
		}
		pk := f.Pkg
		ast.Inspect(f.Decl.Body, func(n ast.Node) bool {
			switch x := n.(type) {
			case *ast.CaseClause:
				for _, e := range x.List {
					if k := constObj(pk, e); k != nil && namedType(k.Type()) == prog.ModulePath+"/directive.Enumeration" {
						compared[k.Name()] = f.Name()
					}
				}
			case *ast.BinaryExpr:
				if x.Op == token.EQL || x.Op == token.NEQ {
					for _, e := range []ast.Expr{x.X, x.Y} {
						if k := constObj(pk, e); k != nil && namedType(k.Type()) == prog.ModulePath+"/directive.Enumeration" {
							compared[k.Name()] = f.Name()
						}
					}
				}
			case *ast.CallExpr:
				// directive.Include.String() compared with the keyword text
				if sel, ok := ast.Unparen(x.Fun).(*ast.SelectorExpr); ok && sel.Sel.Name == "String" {
					if k := constObj(pk, sel.X); k != nil && namedType(k.Type()) == prog.ModulePath+"/directive.Enumeration" {
						compared[k.Name()] = f.Name()
					}
				}
			}
			return true
		})
	}
	var names []string
	for n := range t.Consts {
		names = append(names, n)
	}
	sort.Strings(names)
	for _, kind := range names {
		if h := c.dispatchHandler(kind); h != nil {
			r.Ok("C02-HANDLER-EXHAUSTIVE", "kind "+kind, "dispatch table -> "+h.Name(), "")
		} else if where, ok := compared[kind]; ok {
			r.Ok("C02-HANDLER-EXHAUSTIVE", "kind "+kind, "consumed by a collector: compared in "+where, "")
		} else {
			r.Bad("C02-HANDLER-EXHAUSTIVE", "kind "+kind, "no handler in the dispatch table and no reachable code branches on this kind: such directives are silently ignored", "")
		}
	}
}

// possibleStrings: the set of constant strings an expression of function f can evaluate to: a constant; a local, by
// the union over its assignments; the i-th result of a call of a library function, by the union over that function's
// return statements, a returned parameter standing for the argument of the call. ok is false when some source is not
// of these forms.
func (c *Ctx) possibleStrings(f *Fn, e ast.Expr, subst map[types.Object]ast.Expr, depth int) ([]string, bool) {
	if depth > 4 || f == nil {
		return nil, false
	}
	pk := f.Pkg
	e = ast.Unparen(e)
	if k, ok := constString(pk, e); ok {
		return []string{k}, true
	}
	id, ok := e.(*ast.Ident)
	if !ok {
		return nil, false
	}
	obj := pk.TypesInfo.Uses[id]
	if obj == nil {
		return nil, false
	}
	if arg, isParam := subst[obj]; isParam {
		return nil, arg == nil // handled by the caller (see below); a bare parameter without a known argument is unknown
	}
	var out []string
	found := false
	good := true
	ast.Inspect(f.Decl.Body, func(n ast.Node) bool {
		as, isAs := n.(*ast.AssignStmt)
		if !isAs {
			return true
		}
		for i, l := range as.Lhs {
			lid, isId := ast.Unparen(l).(*ast.Ident)
			if !isId || (pk.TypesInfo.Defs[lid] != obj && pk.TypesInfo.Uses[lid] != obj) {
				continue
			}
			found = true
			if len(as.Rhs) == len(as.Lhs) {
				ks, ok := c.possibleStrings(f, as.Rhs[i], subst, depth+1)
				if !ok {
					good = false
				}
				out = append(out, ks...)
				continue
			}
			// x, ok := h(args)
			call, isCall := ast.Unparen(as.Rhs[0]).(*ast.CallExpr)
			h := c.fnOf(callee(pk, call))
			if !isCall || h == nil {
				good = false
				continue
			}
			ast.Inspect(h.Decl.Body, func(m ast.Node) bool {
				if _, isLit := m.(*ast.FuncLit); isLit {
					return false
				}
				ret, isRet := m.(*ast.ReturnStmt)
				if !isRet {
					return true
				}
				if i >= len(ret.Results) {
					good = false // named results / bare return
					return true
				}
				res := ast.Unparen(ret.Results[i])
				if pi := paramIndexOf(h, res); pi >= 0 && !paramAssigned(h, res) {
					if a := argFor(callSite{f, call}, pi); a != nil {
						ks, ok := c.possibleStrings(f, a, subst, depth+1)
						if !ok {
							good = false
						}
						out = append(out, ks...)
						return true
					}
				}
				ks, ok := c.possibleStrings(h, res, nil, depth+1)
				if !ok {
					good = false
				}
				out = append(out, ks...)
				return true
			})
		}
		return true
	})
	if !found || !good {
		return nil, false
	}
	seen := map[string]bool{}
	var uniq []string
	for _, k := range out {
		if k != "" && !seen[k] {
			seen[k] = true
			uniq = append(uniq, k)
		}
	}
	sort.Strings(uniq)
	return uniq, true
}

// ---------- last response ----------

func (c *Ctx) ruleLastResponse() {
	r := c.R
	r.Rule("C02-LAST-RESPONSE", "AddResponseBody/AddResponseHeaders: every index into Responses inside the Update closure is, after following locals to their definitions, len(v.Responses)-1 of the value v obtained by GetValue(id) from the collection that is updated; id is the one variable defined by newHTTPInteractionID(d) of the function's own directive and given to GetValue and Update; the Update is reached only with the list known to be non-empty (an edge fact in whatever form: i == -1, n == 0, len(..) > 0 ...)", 2)
	for _, name := range []string{"Catalog.AddResponseBody", "Catalog.AddResponseHeaders"} {
		f := c.fn("catalog", name)
		if f == nil {
			r.Undecided("C02-LAST-RESPONSE", name, "function not found", "")
			continue
		}
		pk := f.Pkg
		d := directiveParam(f)
		where := c.pos(f.Decl.Pos())
		cf := c.cfgOf(f)
		nUpd := 0
		bad := ""
		ast.Inspect(f.Decl.Body, func(n ast.Node) bool {
			call, ok := n.(*ast.CallExpr)
			if !ok || len(call.Args) != 2 {
				return true
			}
			cal := callee(pk, call)
			usel, isSel := ast.Unparen(call.Fun).(*ast.SelectorExpr)
			if cal == nil || cal.Name() != "Update" || !isSel || !orderedMapType(pk.TypesInfo.TypeOf(usel.X)) {
				return true
			}
			nUpd++
			// the key: one variable, defined by newHTTPInteractionID(<own directive>)
			idCall, k := definingCall(f, call.Args[0])
			if idCall == nil || k != 0 || len(idCall.Args) != 1 {
				bad = "the key given to Update is not a variable defined by one call"
				return true
			}
			if g := callee(pk, idCall); g == nil || g.Name() != "newHTTPInteractionID" {
				bad = "the key given to Update does not come from newHTTPInteractionID"
				return true
			}
			if aid := identOf(stripRef(idCall.Args[0])); aid == nil || pk.TypesInfo.Uses[aid] != d || d == nil {
				bad = "the interaction id is not derived from the function's own directive"
				return true
			}
			keyObj := pk.TypesInfo.Uses[identOf(call.Args[0])]
			nIdx := 0
			var lenStr string
			ast.Inspect(call.Args[1], func(m ast.Node) bool {
				ix, ok := m.(*ast.IndexExpr)
				if !ok {
					return true
				}
				if fld := fieldSel(pk, ix.X); fld == nil || fld.Name() != "Responses" {
					return true
				}
				nIdx++
				base, off, ok := affineOf(f, ix.Index)
				lc, isCall := base.(*ast.CallExpr)
				if !ok || off != -1 || !isCall || exprString(lc.Fun) != "len" || len(lc.Args) != 1 {
					bad = "the closure indexes Responses with `" + exprString(ix.Index) + "`, which is not the last index (len-1) of the list: Body/Headers attach to the wrong response"
					return true
				}
				rsel, isSel := ast.Unparen(lc.Args[0]).(*ast.SelectorExpr)
				if fld := fieldSel(pk, lc.Args[0]); fld == nil || fld.Name() != "Responses" || !isSel {
					bad = "the last index is taken from another list than Responses"
					return true
				}
				// whose Responses: GetValue(<same key>) of the updated collection (possibly type-asserted)
				v := unalias(f, rsel.X)
				if ta, ok := v.(*ast.TypeAssertExpr); ok {
					v = unalias(f, ta.X)
				}
				gv, ok := v.(*ast.CallExpr)
				if !ok || len(gv.Args) != 1 {
					bad = "the list whose last index is used does not come from GetValue"
					return true
				}
				gsel, isSel := ast.Unparen(gv.Fun).(*ast.SelectorExpr)
				if g := callee(pk, gv); g == nil || g.Name() != "GetValue" || !isSel || c.stableExpr(f, gsel.X, nil) != c.stableExpr(f, usel.X, nil) {
					bad = "the list whose last index is used is read from another collection than the one that is updated"
					return true
				}
				if kid := identOf(gv.Args[0]); kid == nil || pk.TypesInfo.Uses[kid] != keyObj {
					bad = "GetValue and Update are given different keys: the index of one interaction's last response is used on another interaction"
					return true
				}
				lenStr = exprString(base)
				return true
			})
			if bad != "" {
				return true
			}
			if nIdx == 0 {
				bad = "the Update closure does not index Responses"
				return true
			}
			if !cf.establishedAt(call, func(cond ast.Expr, holds bool) bool { return excludesZero(f, cond, holds, lenStr) }, nil) {
				bad = "the Update is reached without the response list being known to be non-empty: Responses[len-1] panics (or the error for a body without a response is lost)"
			}
			return true
		})
		// the same question put to the abstract evaluation of the setter (helpers inlined): it decides when the chain
		// is not written out in this one function (a block shared through a helper with several results)
		if bad != "" || nUpd == 0 {
			if e8bad, und := c.lastResponseE8(f); und == "" && e8bad == "" {
				r.Ok("C02-LAST-RESPONSE", name, "by abstract evaluation (helpers inlined): every successful path stores into Responses[len-1] of the interaction looked up under the id made from d, with the list known to be non-empty", where)
				continue
			} else if und == "" && e8bad != "" {
				bad = e8bad
			}
		}
		switch {
		case bad != "":
			r.Bad("C02-LAST-RESPONSE", name, bad, where)
		case nUpd == 0:
			r.Bad("C02-LAST-RESPONSE", name, "no Update of the interactions found: the body/headers are not attached", where)
		default:
			r.Ok("C02-LAST-RESPONSE", name, "Responses[len-1] of the interaction whose id derives from d; the list is known to be non-empty at the Update", where)
		}
	}
}

// ---------- tag priority ----------

func (c *Ctx) ruleTagPriority(rule string) {
	r := c.R
	r.Rule(rule, "Catalog.tags: the method's own Tags child is consulted first and returned when present; the Tags of the parent URL only when the method has none; the automatic path tag only when neither exists", 1)
	f := c.fn("catalog", "Catalog.tags")
	if f == nil {
		r.Undecided(rule, "anchor", "catalog.(*Catalog).tags not found", "")
		return
	}
	pk := f.Pkg
	own := c.P.LookupFunc("catalog", "getChildrenTagsDirective")
	par := c.P.LookupFunc("catalog", "getParentTagsDirective")
	pt := c.P.LookupFunc("catalog", "Catalog.pathTag")
	if own == nil || par == nil {
		// found by role: the two functions called by tags that hand back a directive; the one that looks at
		// .Parent is the URL source, the other the method's own Tags child
		ast.Inspect(f.Decl.Body, func(n ast.Node) bool {
			call, ok := n.(*ast.CallExpr)
			if !ok {
				return true
			}
			cal := callee(pk, call)
			g := c.fnOf(cal)
			if cal == nil || g == nil || g.Pkg != pk {
				return true
			}
			res := cal.Type().(*types.Signature).Results()
			if res.Len() != 1 || namedType(res.At(0).Type()) != prog.ModulePath+"/directive.Directive" {
				return true
			}
			usesParent := false
			ast.Inspect(g.Decl.Body, func(m ast.Node) bool {
				if fld := fieldSelNode(g.Pkg, m); fld != nil && fld.Name() == "Parent" {
					usesParent = true
				}
				return true
			})
			if usesParent {
				par = cal
			} else {
				own = cal
			}
			return true
		})
	}
	oc, pc, tc := callsIn(pk, f.Decl.Body, own), callsIn(pk, f.Decl.Body, par), callsIn(pk, f.Decl.Body, pt)
	if len(oc) != 1 || len(pc) != 1 || len(tc) != 1 {
		r.Bad(rule, "tags", "the three sources of tags (own Tags, URL Tags, path tag) are not each consulted exactly once", c.pos(f.Decl.Pos()))
		return
	}
	cf := buildCFG(f.Decl.Body)
	// own first: own dominates parent; parent reached only when own was nil: the own call is the init of an if that returns when non-nil
	ownReturns := false
	ast.Inspect(f.Decl.Body, func(n ast.Node) bool {
		ifs, ok := n.(*ast.IfStmt)
		if !ok || ifs.Init == nil || len(callsIn(pk, ifs.Init, own)) != 1 {
			return true
		}
		if be, ok := ast.Unparen(ifs.Cond).(*ast.BinaryExpr); ok && be.Op == token.NEQ && isNil(pk, be.Y) && len(ifs.Body.List) > 0 {
			if _, isRet := ifs.Body.List[len(ifs.Body.List)-1].(*ast.ReturnStmt); isRet {
				ownReturns = true
			}
		}
		return true
	})
	if ownReturns && cf.dominatedBy(pc[0], oc[0]) && cf.dominatedBy(tc[0], pc[0]) {
		r.Ok(rule, "tags", "own Tags -> URL Tags -> path tag, each returned as soon as it exists", c.pos(f.Decl.Pos()))
	} else {
		r.Bad(rule, "tags", "the order of the tag sources is not own Tags, then URL Tags, then path tag: a method inside a URL with Tags loses its own Tags (or gets tags it did not ask for)", c.pos(f.Decl.Pos()))
	}
}

// =====================================================================
// C05
// =====================================================================

func propC05(c *Ctx) {
	c.R.Explanation = "Decides that the two sides of every cross-reference are written together and from one value: tag<->interaction pairing in tagNames/AddHTTPMethod/AddJsonRpcMethod, key == id == protocol+method+path derivation of interactions, name uniqueness (insert only after a pure presence test), tag source priority, every response is tested for a body on every iteration of the validator, JSIGHT version constant. Not decided: usedUserTypes closure and 'pathVariables are exactly the path's parameters' (produced by the dependency from data); response code range is decided under C13."
	c.ruleTagPairing()
	c.ruleIDDerivation()
	c.ruleHasBeforeSet()
	c.ruleTagPriority("C05-TAG-PRIORITY")
	c.ruleValidatorsComplete()
	c.ruleUpdateKeepsEntry()
	c.ruleTagListDistinct()
	c.ruleExpandedTree() // path variables and tags of pasted resources exist only if the collectors read the expanded list
	c.ruleResponseCodeGate("C05-RESPONSE-CODE-GATE")
	c.ruleJsightFirst() // the catalog's jsight version is only ever set by a JSIGHT directive, which must be there and first
	c.ruleLoopsCoverAll("C05-LOOPS-COVER-ALL")
	c.rulePathVerbatim("C05-PATH-VERBATIM")
	c.ruleKindVisitedAll("C05-KIND-VISITED-ALL") // a reference in a directive that nobody looks at is not resolved
	c.ruleStringerIdentity("C05-STRINGER-IDENTITY")
	c.ruleDisallowedCalls("C05-DISALLOWED-CALLS")
	c.ruleIDSeparator("C05-ID-SEPARATOR")
	c.ruleIDSourcesVerbatim("C05-ID-SOURCES-VERBATIM")
	c.ruleBorrowedSliceReadOnly("C05-BORROWED-SLICE-READ-ONLY") // the tag lists of an interaction are inserted into, not written over
	c.ruleLoopFlags("C05-LOOP-FLAG")
	c.ruleInsertAliasing("C05-INSERT-ALIASING")
	c.ruleGroupAppendTotal("C05-GROUP-APPEND-TOTAL")
}

// ruleUpdateKeepsEntry: an entry of a catalog collection accumulates its cross-references (a tag its interaction
// groups, an interaction its tags, responses and bodies). The closure handed to Update must hand back the entry it was
// given: storing a rebuilt copy drops whatever the other side of a cross-reference had already written into it.
func (c *Ctx) ruleUpdateKeepsEntry() {
	r := c.R
	r.Rule("C05-UPDATE-KEEPS-ENTRY", "every closure passed to Update of a catalog collection returns, on each of its returns, the entry it was given (its own parameter): the entry is changed in place, never replaced by a rebuilt copy that lacks the links other directives added", 5)
	n := 0
	for _, f := range c.libFns() {
		pk := f.Pkg
		ast.Inspect(f.Decl.Body, func(nd ast.Node) bool {
			call, ok := nd.(*ast.CallExpr)
			if !ok || len(call.Args) != 2 {
				return true
			}
			cal := callee(pk, call)
			if cal == nil || cal.Name() != "Update" {
				return true
			}
			sel, ok := ast.Unparen(call.Fun).(*ast.SelectorExpr)
			if !ok || !orderedMapType(pk.TypesInfo.TypeOf(sel.X)) {
				return true
			}
			fl, ok := call.Args[1].(*ast.FuncLit)
			if !ok || len(fl.Type.Params.List) != 1 || len(fl.Type.Params.List[0].Names) != 1 {
				return true
			}
			n++
			param := pk.TypesInfo.Defs[fl.Type.Params.List[0].Names[0]]
			key := fmt.Sprintf("%s | %s.Update", f.Name(), exprString(sel.X))
			bad := ""
			reassigned := false
			ast.Inspect(fl.Body, func(m ast.Node) bool {
				switch x := m.(type) {
				case *ast.FuncLit:
					return x == fl
				case *ast.AssignStmt:
					for _, l := range x.Lhs {
						if id, ok := ast.Unparen(l).(*ast.Ident); ok && pk.TypesInfo.Uses[id] == param {
							reassigned = true
						}
					}
				case *ast.ReturnStmt:
					if len(x.Results) != 1 {
						bad = "unexpected results"
						break
					}
					res := ast.Unparen(x.Results[0])
					// v, or v.(T) / T(v) of the same entry
					for {
						switch y := res.(type) {
						case *ast.TypeAssertExpr:
							res = ast.Unparen(y.X)
							continue
						case *ast.CallExpr:
							if len(y.Args) == 1 && pk.TypesInfo.Types[y.Fun].IsType() {
								res = ast.Unparen(y.Args[0])
								continue
							}
						}
						break
					}
					if id, ok := res.(*ast.Ident); !ok || pk.TypesInfo.Uses[id] != param {
						bad = "returns " + exprString(x.Results[0]) + " instead of the entry it was given"
					}
				}
				return true
			})
			if reassigned {
				bad = "the parameter is reassigned inside the closure"
			}
			if bad == "" {
				r.Ok("C05-UPDATE-KEEPS-ENTRY", key, "every return hands back the closure's own parameter", c.pos(fl.Pos()))
			} else {
				r.Bad("C05-UPDATE-KEEPS-ENTRY", key, bad+": the links that other directives wrote into the stored entry (a tag's interactions, an interaction's tags and responses) are lost", c.pos(fl.Pos()))
			}
			return true
		})
	}
	if n == 0 {
		r.Undecided("C05-UPDATE-KEEPS-ENTRY", "sites", "no Update closure found", "")
	}
}

// ruleTagListDistinct: the list of tags a Tags directive resolves to feeds both sides of the tag<->interaction
// cross-reference; a name that occurs twice in it lists the interaction twice under the tag and the tag twice on the
// interaction (F23). Every function of package catalog that collects entries of the Tags table into a slice it returns
// must therefore append an entry only on a path on which a membership test of a set made for this call, keyed by the
// entry's name, has missed, and must record the name in that set in the same iteration.
func (c *Ctx) ruleTagListDistinct() {
	r := c.R
	r.Rule("C05-TAG-LIST-DISTINCT", "a function that collects entries looked up in Catalog.Tags into a slice (append in a loop) appends only after a miss in a set local to the call, keyed by the name that is looked up, and stores the name into that set before the append (or after a membership predicate over the list itself has said no): no tag occurs twice in the list, however the names are arranged", 1)
	n := 0
	for _, f := range c.libFns() {
		pk := f.Pkg
		if pk.Types.Name() != "catalog" || strings.HasSuffix(pk.Fset.Position(f.Decl.Pos()).Filename, "_gen.go") {
			continue
		}
		cf := c.cfgOf(f)
		ast.Inspect(f.Decl.Body, func(nd ast.Node) bool {
			loop, ok := nd.(*ast.RangeStmt)
			if !ok {
				return true
			}
			// in the loop: t, ok := <..>.Tags.Get(key) ... dst = append(dst, t)
			var getCall *ast.CallExpr
			var tObj types.Object
			ast.Inspect(loop.Body, func(m ast.Node) bool {
				as, ok := m.(*ast.AssignStmt)
				if !ok || len(as.Rhs) != 1 || len(as.Lhs) < 1 {
					return true
				}
				call, ok := ast.Unparen(as.Rhs[0]).(*ast.CallExpr)
				if !ok || len(call.Args) != 1 {
					return true
				}
				cal := callee(pk, call)
				sel, isSel := ast.Unparen(call.Fun).(*ast.SelectorExpr)
				if cal == nil || (cal.Name() != "Get" && cal.Name() != "GetValue") || !isSel {
					return true
				}
				if fld := fieldSel(pk, sel.X); fld == nil || fld.Name() != "Tags" {
					return true
				}
				if id := identOf(as.Lhs[0]); id != nil {
					getCall, tObj = call, objOf(pk, id)
				}
				return true
			})
			if getCall == nil || tObj == nil {
				return true
			}
			var app *ast.AssignStmt
			ast.Inspect(loop.Body, func(m ast.Node) bool {
				as, ok := m.(*ast.AssignStmt)
				if !ok || len(as.Rhs) != 1 {
					return true
				}
				call, ok := ast.Unparen(as.Rhs[0]).(*ast.CallExpr)
				if !ok || len(call.Args) != 2 {
					return true
				}
				if id, ok := call.Fun.(*ast.Ident); !ok || id.Name != "append" {
					return true
				}
				if aid := identOf(call.Args[1]); aid != nil && pk.TypesInfo.Uses[aid] == tObj {
					app = as
				}
				return true
			})
			if app == nil {
				return true
			}
			n++
			key := f.Name() + " | list of looked-up tags"
			keyStr := keyString(pk, getCall.Args[0])
			// a call-local set with a miss fact on the same key, and a store of the key that dominates the append
			ok = false
			why := "the entry is appended without a membership test on the names collected so far"
			ast.Inspect(loop.Body, func(m ast.Node) bool {
				st, isAs := m.(*ast.AssignStmt)
				if !isAs || ok {
					return true
				}
				for _, l := range st.Lhs {
					b, k, isIdx := indexOn(pk, l)
					if !isIdx || keyString(pk, k) != keyStr {
						continue
					}
					if !c.mapIsCallLocal(f, b, map[types.Object]bool{}) {
						why = "the set of names seen is not made for this call"
						continue
					}
					miss, kills := missFact(pk, f.Decl.Body, accessPath(pk, b), keyStr, map[types.Object]bool{})
					if !cf.establishedAt(app, miss, kills) {
						why = "the entry is appended on a path on which the name may already have been seen"
						continue
					}
					if !cf.dominatedBy(app, st) {
						why = "the name is not recorded as seen before the entry is appended"
						continue
					}
					ok = true
				}
				return true
			})
			if !ok {
				// or: a membership predicate over the list itself (contains(list, x) / slices.Contains...) has said no
				dst := identOf(app.Lhs[0])
				if dst != nil && cf.establishedAt(app, func(cond ast.Expr, holds bool) bool {
					call, isCall := ast.Unparen(cond).(*ast.CallExpr)
					if !isCall || holds {
						return false
					}
					hasDst, hasElem := false, false
					for _, a := range call.Args {
						if id := identOf(a); id != nil && pk.TypesInfo.Uses[id] == objOf(pk, dst) {
							hasDst = true
						} else if keyString(pk, a) == keyStr || (identOf(a) != nil && pk.TypesInfo.Uses[identOf(a)] == tObj) {
							hasElem = true
						}
					}
					return hasDst && hasElem
				}, nil) {
					ok = true
				}
			}
			if ok {
				r.Ok("C05-TAG-LIST-DISTINCT", key, "appended only after a miss in a set local to the call, keyed by the looked-up name, which is recorded first", c.pos(app.Pos()))
			} else {
				r.Bad("C05-TAG-LIST-DISTINCT", key, why+": a tag named twice by one Tags directive (in any arrangement) lists the interaction twice and is listed twice on it", c.pos(app.Pos()))
			}
			return true
		})
	}
	if n == 0 {
		r.Undecided("C05-TAG-LIST-DISTINCT", "sites", "no function collects looked-up tags into a list: the resolver of the Tags directive is no longer recognised", "")
	}
}

func (c *Ctx) ruleTagPairing() {
	r := c.R
	r.Rule("C05-TAG-PAIRING", "tagNames: the tag list is fully resolved (tags() returned without error) before the first appendInteractionID; in one loop over that list each tag receives the id and contributes its own Name, unconditionally; AddHTTPMethod/AddJsonRpcMethod: the id given to tagNames, to the interaction constructor and to Interactions.Set is one variable, every name returned is appended to the interaction, and no return lies between tagNames succeeding and Set", 3)
	tn := c.fn("catalog", "Catalog.tagNames")
	if tn == nil {
		r.Undecided("C05-TAG-PAIRING", "tagNames", "function not found", "")
	} else {
		pk := tn.Pkg
		var loop *ast.RangeStmt
		ast.Inspect(tn.Decl.Body, func(n ast.Node) bool {
			if rs, ok := n.(*ast.RangeStmt); ok && loop == nil {
				loop = rs
			}
			return true
		})
		ok := false
		why := "no loop over the resolved tags"
		if loop != nil {
			val, _ := loop.Value.(*ast.Ident)
			var vobj types.Object
			if val != nil {
				vobj = pk.TypesInfo.Defs[val]
			}
			appendID, appendName := false, false
			for _, st := range loop.Body.List { // top level only = unconditional
				switch x := st.(type) {
				case *ast.ExprStmt:
					if call, ok := x.X.(*ast.CallExpr); ok {
						if cal := callee(pk, call); cal != nil && cal.Name() == "appendInteractionID" {
							if id, ok := ast.Unparen(call.Fun.(*ast.SelectorExpr).X).(*ast.Ident); ok && pk.TypesInfo.Uses[id] == vobj {
								appendID = true
							}
						}
					}
				case *ast.AssignStmt:
					if len(x.Rhs) == 1 {
						if call, ok := ast.Unparen(x.Rhs[0]).(*ast.CallExpr); ok && exprString(call.Fun) == "append" && len(call.Args) == 2 {
							if fld := fieldSel(pk, call.Args[1]); fld != nil && fld.Name() == "Name" {
								if id, ok := ast.Unparen(call.Args[1].(*ast.SelectorExpr).X).(*ast.Ident); ok && pk.TypesInfo.Uses[id] == vobj {
									appendName = true
								}
							}
						}
					}
				}
			}
			// tags() error returned before the loop
			tagsFn := c.P.LookupFunc("catalog", "Catalog.tags")
			tc := callsIn(pk, tn.Decl.Body, tagsFn)
			errRet := false
			ast.Inspect(tn.Decl.Body, func(n ast.Node) bool {
				if ifs, isIf := n.(*ast.IfStmt); isIf && ifs.End() < loop.Pos() && returnsNonNilError(pk, ifs.Body.List) {
					errRet = true
				}
				return true
			})
			switch {
			case !appendID || !appendName:
				why = fmt.Sprintf("inside the loop: id appended to the tag=%v, tag name collected=%v (both must happen for the same element, unconditionally)", appendID, appendName)
			case len(tc) != 1 || tc[0].Pos() > loop.Pos() || !errRet:
				why = "the tag list is not resolved (with its error returned) before the loop"
			default:
				ok = true
			}
		}
		if ok {
			r.Ok("C05-TAG-PAIRING", "tagNames", "each resolved tag receives the id and contributes its Name in the same unconditional loop", c.pos(tn.Decl.Pos()))
		} else {
			r.Bad("C05-TAG-PAIRING", "tagNames", "tag and interaction sides can diverge: "+why, c.pos(tn.Decl.Pos()))
		}
	}
	// every function that calls tagNames (the two method setters, or a helper they share)
	tnFn := c.P.LookupFunc("catalog", "Catalog.tagNames")
	nSites := 0
	for _, f := range c.libFns() {
		if tnFn == nil || f.Obj == tnFn {
			continue
		}
		pk := f.Pkg
		tnCalls := callsIn(pk, f.Decl.Body, tnFn)
		if len(tnCalls) == 0 {
			continue
		}
		nSites++
		name := recvName(f.Obj) + "." + f.Obj.Name()
		cf := buildCFG(f.Decl.Body)
		var setCall *ast.CallExpr
		ast.Inspect(f.Decl.Body, func(n ast.Node) bool {
			if call, ok := n.(*ast.CallExpr); ok {
				if cal := callee(pk, call); cal != nil && cal.Name() == "Set" && isInteractionsRecv(cal) {
					setCall = call
				}
			}
			return true
		})
		if len(tnCalls) != 1 || setCall == nil {
			r.Bad("C05-TAG-PAIRING", name, "tagNames is called without the Interactions.Set that stores the interaction under the same id", c.pos(f.Decl.Pos()))
			continue
		}
		idPath := accessPath(pk, setCall.Args[0])
		sameID := len(tnCalls[0].Args) == 2 && accessPath(pk, tnCalls[0].Args[1]) == idPath
		// constructor given the same id, result is the value stored
		ctorOK := false
		inPath := accessPath(pk, setCall.Args[1])
		isCtorOf := func(g *Fn, e ast.Expr, idp string) bool {
			call, ok := ast.Unparen(e).(*ast.CallExpr)
			return ok && len(call.Args) >= 1 && accessPath(g.Pkg, call.Args[0]) == idp && idp != ""
		}
		ast.Inspect(f.Decl.Body, func(n ast.Node) bool {
			if as, ok := n.(*ast.AssignStmt); ok && len(as.Lhs) == 1 && len(as.Rhs) == 1 && accessPath(pk, as.Lhs[0]) == inPath {
				if isCtorOf(f, as.Rhs[0], idPath) {
					ctorOK = true
				}
			}
			return true
		})
		if !ctorOK {
			// id and interaction are parameters of a helper: every caller builds the interaction from the id it passes
			ii, vi := paramIndexOf(f, setCall.Args[0]), paramIndexOf(f, setCall.Args[1])
			if ii >= 0 && vi >= 0 && !paramAssigned(f, setCall.Args[0]) && !paramAssigned(f, setCall.Args[1]) {
				if sites, closed := c.callersOf(f); closed && len(sites) > 0 {
					all := true
					for _, cs := range sites {
						ia, va := argFor(cs, ii), argFor(cs, vi)
						okSite := false
						if ia != nil && va != nil {
							idp := accessPath(cs.g.Pkg, ia)
							if isCtorOf(cs.g, va, idp) {
								okSite = true
							} else if vp := accessPath(cs.g.Pkg, va); vp != "" {
								ast.Inspect(cs.g.Decl.Body, func(n ast.Node) bool {
									if as, ok := n.(*ast.AssignStmt); ok && len(as.Lhs) == 1 && len(as.Rhs) == 1 && accessPath(cs.g.Pkg, as.Lhs[0]) == vp && isCtorOf(cs.g, as.Rhs[0], idp) {
										okSite = true
									}
									return true
								})
							}
						}
						skey := name + " <- " + recvName(cs.g.Obj) + "." + cs.g.Obj.Name()
						if okSite {
							r.Ok("C05-TAG-PAIRING", skey, "the caller builds the interaction from the id it hands to the helper", c.pos(cs.call.Pos()))
						} else {
							r.Bad("C05-TAG-PAIRING", skey, "the interaction handed to the helper is not built from the id handed with it", c.pos(cs.call.Pos()))
							all = false
						}
					}
					ctorOK = all
				}
			}
		}
		// names appended in a loop over the result of tagNames
		appended := false
		ast.Inspect(f.Decl.Body, func(n ast.Node) bool {
			if rs, ok := n.(*ast.RangeStmt); ok {
				for _, st := range rs.Body.List {
					if es, ok := st.(*ast.ExprStmt); ok {
						if call, ok := es.X.(*ast.CallExpr); ok {
							if cal := callee(pk, call); cal != nil && c.appendsParamToReceiver(cal) && isSelector(call.Fun) && accessPath(pk, call.Fun.(*ast.SelectorExpr).X) == inPath {
								appended = true
							}
						}
					}
				}
			}
			return true
		})
		// no return between tagNames' error check and Set
		clean := true
		ast.Inspect(f.Decl.Body, func(n ast.Node) bool {
			if ret, ok := n.(*ast.ReturnStmt); ok && ret.Pos() > tnCalls[0].End() && ret.End() < setCall.Pos() {
				// the return inside `if je != nil` directly after tagNames is the error propagation
				if !cf.dominatedBy(setCall, tnCalls[0]) {
					clean = false
				}
				if len(ret.Results) == 1 && isNil(pk, ret.Results[0]) {
					clean = false
				}
			}
			return true
		})
		if sameID && ctorOK && appended && clean && cf.dominatedBy(setCall, tnCalls[0]) {
			r.Ok("C05-TAG-PAIRING", name, "one id for tagNames, constructor and Set; every returned tag name is appended; Set follows unconditionally", c.pos(f.Decl.Pos()))
		} else {
			r.Bad("C05-TAG-PAIRING", name, fmt.Sprintf("same id=%v constructor=%v names appended=%v no early success return=%v: a tag can list an interaction that is not stored under that id (or vice versa)", sameID, ctorOK, appended, clean), c.pos(f.Decl.Pos()))
		}
	}
	if nSites == 0 {
		r.Undecided("C05-TAG-PAIRING", "callers of tagNames", "no function calls tagNames", "")
	}
	// both kinds of interaction go through it
	for _, name := range []string{"Catalog.AddHTTPMethod", "Catalog.AddJsonRpcMethod"} {
		f := c.fn("catalog", name)
		if f == nil {
			r.Undecided("C05-TAG-PAIRING", name+" reaches tagNames", "function not found", "")
			continue
		}
		reaches := len(callsIn(f.Pkg, f.Decl.Body, tnFn)) > 0
		if !reaches {
			for _, g := range c.libFns() {
				if len(callsIn(f.Pkg, f.Decl.Body, g.Obj)) > 0 && g.Obj != f.Obj && len(callsIn(g.Pkg, g.Decl.Body, tnFn)) > 0 {
					reaches = true
				}
			}
		}
		if reaches {
			r.Ok("C05-TAG-PAIRING", name+" reaches tagNames", "the setter resolves the tags of its interaction (directly or through the shared helper)", c.pos(f.Decl.Pos()))
		} else {
			r.Bad("C05-TAG-PAIRING", name+" reaches tagNames", "the setter stores an interaction without resolving its tags: the interaction is missing from every tag", c.pos(f.Decl.Pos()))
		}
	}
}

func (c *Ctx) ruleIDDerivation() {
	r := c.R
	r.Rule("C05-ID-DERIVATION", "the interaction constructors store Id = id.String(), the protocol constant of their kind, and method/path taken from the same id; the id constructors take protocol from the matching constant, path from d.Path() and the method from the directive chain; String() formats '<protocol> <method> <path>' in that order", 6)
	pk := c.P.Pkg("catalog")
	checkCtor := func(fname string, want map[string]string) {
		f := c.fn("catalog", fname)
		if f == nil {
			r.Undecided("C05-ID-DERIVATION", fname, "function not found", "")
			return
		}
		idParam := ""
		if len(f.Decl.Type.Params.List) > 0 && len(f.Decl.Type.Params.List[0].Names) > 0 {
			idParam = f.Decl.Type.Params.List[0].Names[0].Name
		}
		got := map[string]string{}
		ast.Inspect(f.Decl.Body, func(n ast.Node) bool {
			if cl, ok := n.(*ast.CompositeLit); ok {
				for _, el := range cl.Elts {
					if kv, ok := el.(*ast.KeyValueExpr); ok {
						if kid, ok := kv.Key.(*ast.Ident); ok {
							got[kid.Name] = strings.ReplaceAll(exprString(kv.Value), idParam+".", "id.")
						}
					}
				}
			}
			return true
		})
		bad := ""
		for fld, w := range want {
			if got[fld] != w {
				bad += fmt.Sprintf(" %s=%q (expected %q)", fld, got[fld], w)
			}
		}
		if bad == "" {
			r.Ok("C05-ID-DERIVATION", fname, fmt.Sprintf("fields %v derive from the id parameter", keysOfStr(want)), c.pos(f.Decl.Pos()))
		} else {
			r.Bad("C05-ID-DERIVATION", fname, "an interaction field is not derived from its id:"+bad, c.pos(f.Decl.Pos()))
		}
	}
	checkCtor("newHTTPInteraction", map[string]string{"Id": "id.String()", "Protocol": "HTTP", "HttpMethod": "id.method", "PathVal": "id.path"})
	checkCtor("newJsonRpcInteraction", map[string]string{"Id": "id.String()", "Protocol": "JsonRpc", "PathVal": "id.path"})
	// String() formats
	checkFmt := func(recv, wantPrefix string, wantArgs []string) {
		f := c.fn("catalog", recv+".String")
		if f == nil {
			r.Undecided("C05-ID-DERIVATION", recv+".String", "method not found", "")
			return
		}
		ok := false
		got := ""
		ast.Inspect(f.Decl.Body, func(n ast.Node) bool {
			if call, isCall := n.(*ast.CallExpr); isCall {
				if cal := callee(pk, call); cal != nil && cal.Name() == "Sprintf" && len(call.Args) == 1+len(wantArgs) {
					format, _ := constString(pk, call.Args[0])
					got = format
					match := format == wantPrefix+" %s %s"
					for i, w := range wantArgs {
						a := exprString(call.Args[1+i])
						if j := strings.Index(a, "."); j >= 0 {
							a = a[j+1:]
						}
						if a != w {
							match = false
							got += " " + a
						}
					}
					ok = match
				}
			}
			return true
		})
		if ok {
			r.Ok("C05-ID-DERIVATION", recv+".String", "formats \""+wantPrefix+" <method> <path>\"", c.pos(f.Decl.Pos()))
		} else {
			r.Bad("C05-ID-DERIVATION", recv+".String", "the id text is not '<protocol> <method> <path>': "+got, c.pos(f.Decl.Pos()))
		}
	}
	checkFmt("HTTPInteractionID", "http", []string{"method.String()", "path.String()"})
	checkFmt("JsonRpcInteractionId", "json-rpc-2.0", []string{"method", "path.String()"})
	// id constructors
	for _, spec := range [][3]string{{"newHTTPInteractionID", "HTTP", "HTTPMethod"}, {"newJsonRpcInteractionId", "JsonRpc", "JsonRpcMethodName"}} {
		f := c.fn("catalog", spec[0])
		if f == nil {
			r.Undecided("C05-ID-DERIVATION", spec[0], "function not found", "")
			continue
		}
		d := directiveParam(f)
		proto, path, meth := false, false, false
		ast.Inspect(f.Decl.Body, func(n ast.Node) bool {
			switch x := n.(type) {
			case *ast.KeyValueExpr:
				if kid, ok := x.Key.(*ast.Ident); ok && kid.Name == "protocol" && exprString(x.Value) == spec[1] {
					proto = true
				}
			case *ast.CallExpr:
				if sel, ok := ast.Unparen(x.Fun).(*ast.SelectorExpr); ok {
					if id, ok := ast.Unparen(sel.X).(*ast.Ident); ok && pk.TypesInfo.Uses[id] == d {
						if sel.Sel.Name == "Path" {
							path = true
						}
						if sel.Sel.Name == spec[2] {
							meth = true
						}
					}
				}
			}
			return true
		})
		if proto && path && meth {
			r.Ok("C05-ID-DERIVATION", spec[0], "protocol constant, d.Path() and d."+spec[2]+"() of the same directive", c.pos(f.Decl.Pos()))
		} else {
			r.Bad("C05-ID-DERIVATION", spec[0], fmt.Sprintf("id not derived from the directive (protocol=%v path=%v method=%v)", proto, path, meth), c.pos(f.Decl.Pos()))
		}
	}
}

func keysOfStr(m map[string]string) []string {
	var out []string
	for k := range m {
		out = append(out, k)
	}
	sort.Strings(out)
	return out
}

// ruleValidatorsComplete: validateCatalog runs all validators with their errors returned; inside a validator that loops over
// the responses of an interaction, the `Body == nil` test is passed on every iteration.
func (c *Ctx) ruleValidatorsComplete() {
	r := c.R
	r.Rule("C05-VALIDATORS", "validateCatalog calls its validators and returns each error; the response-body validator tests `Body == nil` (returning an error) on EVERY iteration of its loop over Responses: no path from the loop head to the next iteration avoids the test; the JSIGHT handler compares the version with the constant \"0.3\"", 3)
	vc := c.fn("core", "JApiCore.validateCatalog")
	if vc == nil {
		r.Undecided("C05-VALIDATORS", "validateCatalog", "function not found", "")
		return
	}
	pk := vc.Pkg
	// every call in validateCatalog to a validate* method has its result returned
	n, bad := 0, ""
	ast.Inspect(vc.Decl.Body, func(nd ast.Node) bool {
		call, ok := nd.(*ast.CallExpr)
		if !ok {
			return true
		}
		cal := callee(pk, call)
		if cal == nil || !strings.HasPrefix(cal.Name(), "validate") {
			return true
		}
		n++
		guarded := false
		ast.Inspect(vc.Decl.Body, func(m ast.Node) bool {
			switch x := m.(type) {
			case *ast.IfStmt:
				if x.Init != nil && x.Init.Pos() <= call.Pos() && call.End() <= x.Init.End() && returnsNonNilError(pk, x.Body.List) {
					guarded = true
				}
			case *ast.ReturnStmt:
				if len(x.Results) == 1 && x.Results[0].Pos() <= call.Pos() && call.End() <= x.Results[0].End() {
					guarded = true
				}
			}
			return true
		})
		if !guarded {
			bad = cal.Name()
		}
		return true
	})
	if n >= 3 && bad == "" {
		r.Ok("C05-VALIDATORS", "validateCatalog", fmt.Sprintf("%d validators, every error returned", n), c.pos(vc.Decl.Pos()))
	} else {
		r.Bad("C05-VALIDATORS", "validateCatalog", fmt.Sprintf("%d validators called; the result of %q is not returned", n, bad), c.pos(vc.Decl.Pos()))
	}
	// the Body == nil test inside a loop over Responses
	found := false
	for _, f := range c.reachableInPkg(vc) {
		ast.Inspect(f.Decl.Body, func(nd ast.Node) bool {
			rs, ok := nd.(*ast.RangeStmt)
			if !ok {
				return true
			}
			if fld := fieldSel(f.Pkg, rs.X); fld == nil || fld.Name() != "Responses" {
				return true
			}
			var test *ast.IfStmt
			ast.Inspect(rs.Body, func(m ast.Node) bool {
				if ifs, ok := m.(*ast.IfStmt); ok {
					if be, ok := ast.Unparen(ifs.Cond).(*ast.BinaryExpr); ok && be.Op == token.EQL && isNil(f.Pkg, be.Y) {
						if bf := fieldSel(f.Pkg, be.X); bf != nil && bf.Name() == "Body" && returnsNonNilError(f.Pkg, ifs.Body.List) {
							test = ifs
						}
					}
				}
				return true
			})
			if test == nil {
				return true
			}
			found = true
			// every iteration passes the test: the test is a top-level statement of the loop body and no `continue`
			// or conditional skip precedes it
			key := f.Name() + " | response body test"
			top := false
			idx := -1
			for i, st := range rs.Body.List {
				if st == ast.Stmt(test) {
					top, idx = true, i
				}
			}
			skip := false
			if top {
				for _, st := range rs.Body.List[:idx] {
					ast.Inspect(st, func(m ast.Node) bool {
						if b, ok := m.(*ast.BranchStmt); ok && (b.Tok == token.CONTINUE || b.Tok == token.BREAK) {
							skip = true
						}
						return true
					})
				}
			}
			if top && !skip {
				r.Ok("C05-VALIDATORS", key, "the test is an unconditional statement of the loop body and nothing before it leaves the iteration", c.pos(test.Pos()))
			} else {
				r.Bad("C05-VALIDATORS", key, "some responses are never tested for a body: the test is nested in a condition or a `continue`/`break` precedes it, so a response without a body can be accepted", c.pos(test.Pos()))
			}
			return true
		})
	}
	if !found {
		r.Bad("C05-VALIDATORS", "response body test", "no validator tests `response.Body == nil` in a loop over Responses", c.pos(vc.Decl.Pos()))
	}
	// JSIGHT version
	if f := c.fn("core", "JApiCore.addJSight"); f != nil {
		ok := false
		ast.Inspect(f.Decl.Body, func(nd ast.Node) bool {
			if ifs, isIf := nd.(*ast.IfStmt); isIf && returnsNonNilError(f.Pkg, ifs.Body.List) {
				if be, isBe := ast.Unparen(ifs.Cond).(*ast.BinaryExpr); isBe && be.Op == token.NEQ {
					if s, isS := constString(f.Pkg, be.Y); isS && s == "0.3" {
						ok = true
					}
				}
			}
			return true
		})
		if ok {
			r.Ok("C05-VALIDATORS", "JSIGHT version", "a version other than \"0.3\" is refused", c.pos(f.Decl.Pos()))
		} else {
			r.Bad("C05-VALIDATORS", "JSIGHT version", "the JSIGHT handler does not compare the version with the constant \"0.3\"", c.pos(f.Decl.Pos()))
		}
	}
}

// ---------- a path is parsed as it is written ----------

// rulePathVerbatim: the parameters of a path are looked for in several places (when the directive is checked, when the
// pieces of path variables are registered, when they are put into the catalog). All of them must see the same string:
// the path as the directive gives it. A caller that first rewrites the string (cleans it, folds its case, trims it)
// finds other parameters than the others do, and a parameter registered under one spelling is not found under the
// other.
func (c *Ctx) rulePathVerbatim(rule string) {
	r := c.R
	r.Rule(rule, "every call of the path parsers of package core (pathParameters, splitPath) passes the path as it came: an unassigned parameter of the caller, the Path()/String() of a directive or catalog value, or a plain conversion of one - never the result of another string function (path.Clean, strings.ToLower, Trim...): all consumers must split the same string", 3)
	var parsers []*types.Func
	for _, name := range []string{"pathParameters", "splitPath"} {
		if f := c.P.LookupFunc("core", name); f != nil {
			parsers = append(parsers, f)
		}
	}
	if len(parsers) == 0 {
		r.Undecided(rule, "anchor", "core.pathParameters / core.splitPath not found", "")
		return
	}
	var verbatim func(f *Fn, e ast.Expr, depth int) bool
	verbatim = func(f *Fn, e ast.Expr, depth int) bool {
		e = ast.Unparen(e)
		if depth > 4 {
			return false
		}
		switch x := e.(type) {
		case *ast.Ident:
			if paramIndexOf(f, x) >= 0 {
				return !paramAssigned(f, x)
			}
			if d := soleDef(f, x); d != nil {
				return verbatim(f, d, depth+1)
			}
			if dc, _ := definingCall(f, x); dc != nil {
				return verbatim(f, dc, depth+1)
			}
			return false
		case *ast.CallExpr:
			if tv, ok := f.Pkg.TypesInfo.Types[x.Fun]; ok && tv.IsType() && len(x.Args) == 1 {
				return verbatim(f, x.Args[0], depth+1) // conversion
			}
			cal := callee(f.Pkg, x)
			if cal == nil || !c.P.IsLibPkg(cal.Pkg()) {
				return false
			}
			if sig := cal.Type().(*types.Signature); sig.Recv() != nil && (cal.Name() == "Path" || cal.Name() == "String") && len(x.Args) == 0 {
				if sel, ok := ast.Unparen(x.Fun).(*ast.SelectorExpr); ok {
					if inner, isCall := ast.Unparen(sel.X).(*ast.CallExpr); isCall {
						return verbatim(f, inner, depth+1)
					}
				}
				return true
			}
			return false
		case *ast.SelectorExpr:
			return fieldSel(f.Pkg, x) != nil
		}
		return false
	}
	n := 0
	for _, f := range c.libFns() {
		ast.Inspect(f.Decl.Body, func(nd ast.Node) bool {
			call, ok := nd.(*ast.CallExpr)
			if !ok || len(call.Args) != 1 {
				return true
			}
			cal := callee(f.Pkg, call)
			is := false
			for _, p := range parsers {
				if cal == p {
					is = true
				}
			}
			if !is {
				return true
			}
			n++
			key := fmt.Sprintf("%s | %s(%s)", f.Name(), cal.Name(), exprString(call.Args[0]))
			if verbatim(f, call.Args[0], 0) {
				r.Ok(rule, key, "the path as it came", c.pos(call.Pos()))
			} else {
				r.Bad(rule, key, "the string that is split is not the path as written but the result of "+exprString(call.Args[0])+": this consumer sees other segments and parameters than the others, so a parameter checked or registered here is looked up elsewhere under another path", c.pos(call.Pos()))
			}
			return true
		})
	}
	if n < 3 {
		r.Undecided(rule, "sites", fmt.Sprintf("%d calls of the path parsers found", n), "")
	}
}

// ---------- every directive of a kind is looked at ----------

// ruleKindVisitedAll: a directive kind without a handler in the dispatch table is consumed by some other code that
// compares Type() with it. If the only such code is a finder - a loop that returns the first element of that kind (the
// Tags child of a method) - then a directive of the kind is looked at only when somebody searches for it and only if
// it is the first: a second one, or one that nobody falls back to, is never checked, whatever it says.
func (c *Ctx) ruleKindVisitedAll(rule string) {
	r := c.R
	r.Rule(rule, "every directive kind has a handler in the dispatch table, or is compared with (Type() == K, case K) by code that goes on after a match (a collector that visits every directive of the kind); a kind that is only ever searched for by a loop returning the first match is checked only where it is found: an undeclared name, a forbidden annotation or a missing parameter in any other directive of the kind is accepted", 25)
	t := c.Tables()
	reach := reachDecls(c.reachableLib(c.ssaRoots(buildRoots...), nil))
	visitor, finder := map[string]string{}, map[string]string{}
	for _, f := range c.libFns() {
		if !reach[f.Obj] || f.Pkg.PkgPath == prog.ModulePath+"/directive" {
			continue
		}
		pk := f.Pkg
		inspectWithStack(f.Decl.Body, func(n ast.Node, stack []ast.Node) bool {
			var kinds []string
			switch x := n.(type) {
			case *ast.CaseClause:
				for _, e := range x.List {
					if k := constObj(pk, e); k != nil && namedType(k.Type()) == prog.ModulePath+"/directive.Enumeration" {
						kinds = append(kinds, k.Name())
					}
				}
			case *ast.BinaryExpr:
				if x.Op == token.EQL || x.Op == token.NEQ {
					for _, e := range []ast.Expr{x.X, x.Y} {
						if k := constObj(pk, e); k != nil && namedType(k.Type()) == prog.ModulePath+"/directive.Enumeration" {
							kinds = append(kinds, k.Name())
						}
					}
				}
			case *ast.CallExpr:
				if sel, ok := ast.Unparen(x.Fun).(*ast.SelectorExpr); ok && sel.Sel.Name == "String" {
					if k := constObj(pk, sel.X); k != nil && namedType(k.Type()) == prog.ModulePath+"/directive.Enumeration" {
						kinds = append(kinds, k.Name())
					}
				}
			}
			if len(kinds) == 0 {
				return true
			}
			// a finder: inside a loop whose element is returned by the branch this comparison guards
			isFinder := false
			var loopVars []types.Object
			for _, a := range stack {
				if rs, ok := a.(*ast.RangeStmt); ok {
					for _, e := range []ast.Expr{rs.Key, rs.Value} {
						if id, ok := e.(*ast.Ident); ok && id.Name != "_" {
							if o := pk.TypesInfo.Defs[id]; o != nil {
								loopVars = append(loopVars, o)
							}
						}
					}
				}
			}
			if len(loopVars) > 0 {
				var guarded ast.Node
				for i := len(stack) - 1; i >= 0 && guarded == nil; i-- {
					switch g := stack[i].(type) {
					case *ast.IfStmt:
						guarded = g.Body
					case *ast.CaseClause:
						guarded = g
					}
				}
				if cc, ok := n.(*ast.CaseClause); ok {
					guarded = cc
				}
				if guarded != nil {
					ast.Inspect(guarded, func(m ast.Node) bool {
						ret, ok := m.(*ast.ReturnStmt)
						if !ok {
							return true
						}
						for _, res := range ret.Results {
							ast.Inspect(res, func(q ast.Node) bool {
								if id, ok := q.(*ast.Ident); ok {
									for _, lv := range loopVars {
										if pk.TypesInfo.Uses[id] == lv {
											isFinder = true
										}
									}
								}
								return true
							})
						}
						return true
					})
				}
			}
			// a branch that only steps over the match (`if d.Type() == K { continue }`) looks at nothing: it is neither a
			// visit nor a search
			if be, isBin := n.(*ast.BinaryExpr); isBin && be.Op == token.EQL {
				for i := len(stack) - 1; i >= 0; i-- {
					ifs, isIf := stack[i].(*ast.IfStmt)
					if !isIf {
						continue
					}
					if ifs.Cond.Pos() <= n.Pos() && n.End() <= ifs.Cond.End() && ifs.Else == nil {
						onlySteps := len(ifs.Body.List) > 0
						for _, st := range ifs.Body.List {
							if _, isBranch := st.(*ast.BranchStmt); !isBranch {
								onlySteps = false
							}
						}
						if onlySteps {
							return true
						}
					}
					break
				}
			}
			for _, k := range kinds {
				if isFinder {
					finder[k] = f.Name()
				} else {
					visitor[k] = f.Name()
				}
			}
			return true
		})
	}
	var names []string
	for n := range t.Consts {
		names = append(names, n)
	}
	sort.Strings(names)
	for _, kind := range names {
		switch {
		case c.dispatchHandler(kind) != nil:
			r.OkTrivial(rule, "kind "+kind, "handler in the dispatch table: every directive of the kind passes it", "")
		case visitor[kind] != "":
			r.Ok(rule, "kind "+kind, "visited by a collector that goes on after a match: "+visitor[kind], "")
		case finder[kind] != "":
			r.Bad(rule, "kind "+kind, "the only code that looks for this kind ("+finder[kind]+") returns the first match: a directive of the kind that is not the first, or that nobody searches for, is never checked - an undeclared name, an annotation or a missing parameter in it is accepted", "")
		default:
			r.Bad(rule, "kind "+kind, "no handler and no code branches on this kind", "")
		}
	}
}

// ---------- the text of a string-typed name is the name ----------

// ruleStringerIdentity: ids and keys are put together from String() of their parts (an interaction id from protocol,
// method and path), while the same parts are also emitted, compared and used as map keys as they are. For a named type
// that IS a string, String() therefore has to give back the value itself: a String() that tidies the value up makes the
// id say one thing and the field another, and lets two different values collide under one key.
func (c *Ctx) ruleStringerIdentity(rule string) {
	r := c.R
	r.Rule(rule, "for every named type of the library whose underlying type is string and which has a String() method: the method returns the receiver converted to string and nothing else (ids and JSON keys are built from String(), fields and map keys from the value itself: the two must be the same text)", 1)
	n := 0
	for _, f := range c.libFns() {
		if f.Obj.Name() != "String" || f.Decl.Recv == nil || len(f.Decl.Recv.List) != 1 {
			continue
		}
		sig := f.Obj.Type().(*types.Signature)
		if sig.Params().Len() != 0 || sig.Results().Len() != 1 {
			continue
		}
		rt := sig.Recv().Type()
		if p, ok := rt.(*types.Pointer); ok {
			rt = p.Elem()
		}
		if bt, ok := rt.Underlying().(*types.Basic); !ok || bt.Info()&types.IsString == 0 {
			continue
		}
		n++
		key := f.Name()
		ident := false
		if len(f.Decl.Body.List) == 1 && len(f.Decl.Recv.List[0].Names) == 1 {
			if ret, ok := f.Decl.Body.List[0].(*ast.ReturnStmt); ok && len(ret.Results) == 1 {
				e := ast.Unparen(ret.Results[0])
				if call, ok := e.(*ast.CallExpr); ok && len(call.Args) == 1 {
					if tv, ok := f.Pkg.TypesInfo.Types[call.Fun]; ok && tv.IsType() {
						e = ast.Unparen(call.Args[0])
					}
				}
				if st, ok := e.(*ast.StarExpr); ok {
					e = ast.Unparen(st.X)
				}
				if id, ok := e.(*ast.Ident); ok && f.Pkg.TypesInfo.Uses[id] == f.Pkg.TypesInfo.Defs[f.Decl.Recv.List[0].Names[0]] {
					ident = true
				}
			}
		}
		if ident {
			r.Ok(rule, key, "returns the value itself", c.pos(f.Decl.Pos()))
		} else {
			r.Bad(rule, key, "String() of a string-typed name computes something else than the value: ids and JSON keys (built from String()) no longer agree with the fields and map keys (built from the value), and two different values can meet under one key", c.pos(f.Decl.Pos()))
		}
	}
	if n == 0 {
		r.Ok(rule, "library", "no string-typed name has a String() method", "")
	}
}

// ---------- the parts of an interaction id do not contain its separator ----------

// ruleIDSeparator: the id of an interaction - its key in the catalog document - is "<protocol> <method> <path>". It
// tells interactions apart only if one can tell where the path begins: the path must not contain a blank. (The
// method of a JSON-RPC interaction is free text and may; with the path free of blanks the last blank of the id is the
// one in front of the path.) A quoted parameter can hold anything, so the function that yields the path has to refuse
// blanks itself.
func (c *Ctx) ruleIDSeparator(rule string) {
	r := c.R
	r.Rule(rule, "directive.(Directive).Path returns a path only after a test that refuses a blank and a tab in it (strings.ContainsAny / IndexAny / ContainsRune on the path with an error return on a hit, dominating every successful return of the path): the id of an interaction joins protocol, method and path with blanks and is the key of the interaction in the document", 1)
	f := c.fn("directive", "Directive.Path")
	if f == nil {
		r.Undecided(rule, "anchor", "directive.(Directive).Path not found", "")
		return
	}
	fc := c.cfgOf(f)
	n, bad := 0, 0
	ast.Inspect(f.Decl.Body, func(nd ast.Node) bool {
		ret, ok := nd.(*ast.ReturnStmt)
		if !ok || len(ret.Results) != 2 || !isNil(f.Pkg, ret.Results[1]) {
			return true
		}
		id, ok := ast.Unparen(ret.Results[0]).(*ast.Ident)
		if !ok {
			return true // handed on from the parent's Path(): judged there
		}
		n++
		obj := f.Pkg.TypesInfo.Uses[id]
		refused := fc.establishedAt(ret, func(cond ast.Expr, trueEdge bool) bool {
			call, ok := ast.Unparen(cond).(*ast.CallExpr)
			if !ok || trueEdge || len(call.Args) != 2 {
				return false
			}
			cal := callee(f.Pkg, call)
			if cal == nil || cal.Pkg() == nil || cal.Pkg().Path() != "strings" || (cal.Name() != "ContainsAny" && cal.Name() != "IndexAny" && cal.Name() != "ContainsRune" && cal.Name() != "Contains") {
				return false
			}
			aid, ok := ast.Unparen(call.Args[0]).(*ast.Ident)
			if !ok || f.Pkg.TypesInfo.Uses[aid] != obj {
				return false
			}
			set, isStr := constString(f.Pkg, call.Args[1])
			if !isStr {
				if k, isK := constInt(f.Pkg, call.Args[1]); isK && k == ' ' {
					return true
				}
				return false
			}
			return strings.ContainsRune(set, ' ')
		}, nil)
		key := f.Name() + " | return " + id.Name
		if refused {
			r.Ok(rule, key, "a path with a blank is refused before it is returned", c.pos(ret.Pos()))
		} else {
			bad++
			r.Bad(rule, key, "a path is returned that may contain a blank: the id '<protocol> <method> <path>' no longer says where the path begins, and two different interactions (the JSON-RPC method \"a /x\" of /y, the method a of \"/x /y\") get the same key in the catalog document", c.pos(ret.Pos()))
		}
		return true
	})
	if n == 0 {
		r.Undecided(rule, "sites", "Directive.Path returns no path variable", c.pos(f.Decl.Pos()))
	}
}

// ---------- the parts of an id are the parameters as written ----------

// ruleIDSourcesVerbatim: the key of an interaction is built from what the accessors of package directive return
// (Path(), JsonRpcMethodName()), while the fields of the interaction, the tags and the path-variable tables are filled
// from the parameters of the directive themselves. The two agree because the accessors hand the parameter on as it
// stands; an accessor that trims, folds or decodes makes key and fields disagree for the inputs it changes.
func (c *Ctx) ruleIDSourcesVerbatim(rule string) {
	r := c.R
	r.Rule(rule, "every method of directive.Directive with a (string, error) result that an id constructor of package catalog calls (newHTTPInteractionID, newJsonRpcInteractionId: Path, JsonRpcMethodName) returns, on success, a named parameter of the directive as it stands (d.NamedParameter(<constant>), directly or through a local only assigned from such calls) or the result of the same accessor of the parent: never the result of another function (strings.TrimSpace, ToLower, url.PathUnescape, ...); tests on the value (HasPrefix, ContainsAny) are free. The id constructors store into the path field of the id exactly what Path() returned, converted to the field's type", 2)
	pkcat := c.P.Pkg("catalog")
	if pkcat == nil {
		r.Undecided(rule, "anchor", "package catalog not loaded", "")
		return
	}
	accessors := map[*types.Func]bool{}
	for _, f := range c.libFns() {
		if f.Pkg != pkcat || !strings.Contains(strings.ToLower(f.Obj.Name()), "interactionid") || !strings.HasPrefix(f.Obj.Name(), "new") {
			continue
		}
		ast.Inspect(f.Decl.Body, func(nd ast.Node) bool {
			call, ok := nd.(*ast.CallExpr)
			if !ok {
				return true
			}
			cal := callee(f.Pkg, call)
			if cal == nil || cal.Pkg() == nil || cal.Pkg().Path() != prog.ModulePath+"/directive" {
				return true
			}
			sig := cal.Type().(*types.Signature)
			if sig.Recv() == nil || sig.Results().Len() != 2 {
				return true
			}
			if b, ok := sig.Results().At(0).Type().Underlying().(*types.Basic); ok && b.Kind() == types.String {
				accessors[cal] = true
			}
			return true
		})
	}
	n := 0
	// ... and the id constructors store what the accessor gave them, converted to the field's type and nothing else
	for _, f := range c.libFns() {
		if f.Pkg != pkcat || !strings.Contains(strings.ToLower(f.Obj.Name()), "interactionid") || !strings.HasPrefix(f.Obj.Name(), "new") {
			continue
		}
		pk := f.Pkg
		fromAccessor := func(e ast.Expr) string {
			e = ast.Unparen(e)
			// a plain conversion to the type of the field
			if call, ok := e.(*ast.CallExpr); ok && len(call.Args) == 1 {
				if tv, isT := pk.TypesInfo.Types[call.Fun]; isT && tv.IsType() {
					e = ast.Unparen(call.Args[0])
				} else if cal := callee(pk, call); cal != nil && accessors[cal] {
					return ""
				} else {
					return "the result of " + exprString(call.Fun)
				}
			}
			id, ok := e.(*ast.Ident)
			if !ok {
				return "the value of " + exprString(e)
			}
			obj := pk.TypesInfo.Uses[id]
			why, defs := "", 0
			ast.Inspect(f.Decl.Body, func(m ast.Node) bool {
				as, ok := m.(*ast.AssignStmt)
				if !ok {
					return true
				}
				for _, l := range as.Lhs {
					lid, ok := l.(*ast.Ident)
					if !ok || pk.TypesInfo.ObjectOf(lid) != obj {
						continue
					}
					defs++
					call, ok := ast.Unparen(as.Rhs[0]).(*ast.CallExpr)
					if !ok || len(as.Rhs) != 1 {
						why = "the value of " + exprString(as.Rhs[0])
						continue
					}
					if cal := callee(pk, call); cal == nil || !accessors[cal] {
						why = "the result of " + exprString(call.Fun)
					}
				}
				return true
			})
			if defs == 0 {
				return "the value of " + id.Name
			}
			return why
		}
		judge := func(key string, val ast.Expr, pos token.Pos) {
			n++
			if why := fromAccessor(val); why == "" {
				r.Ok(rule, key, "stores what the accessor of the directive returned (a plain conversion)", c.pos(pos))
			} else {
				r.Bad(rule, key, "the path of the id is "+why+", not the path the accessor of the directive returned: everything else that is keyed by the path (path variables, similar paths, tags) uses the path as written", c.pos(pos))
			}
		}
		ast.Inspect(f.Decl.Body, func(nd ast.Node) bool {
			switch x := nd.(type) {
			case *ast.AssignStmt:
				for i, l := range x.Lhs {
					if sel, ok := ast.Unparen(l).(*ast.SelectorExpr); ok && sel.Sel.Name == "path" && i < len(x.Rhs) && len(x.Lhs) == len(x.Rhs) {
						judge(f.Name()+" | "+exprString(l)+" =", x.Rhs[i], x.Pos())
					}
				}
			case *ast.KeyValueExpr:
				if kid, ok := x.Key.(*ast.Ident); ok && kid.Name == "path" {
					if fv, isF := pk.TypesInfo.Uses[kid].(*types.Var); isF && fv.IsField() {
						judge(f.Name()+" | path:", x.Value, x.Pos())
					}
				}
			}
			return true
		})
	}
	var accs []*types.Func
	for a := range accessors {
		accs = append(accs, a)
	}
	sort.Slice(accs, func(i, j int) bool { return accs[i].Name() < accs[j].Name() })
	for _, a := range accs {
		f := c.fnOf(a)
		if f == nil || f.Decl == nil || f.Decl.Body == nil {
			continue
		}
		pk := f.Pkg
		var verbatim func(e ast.Expr, depth int) string
		verbatim = func(e ast.Expr, depth int) string {
			e = ast.Unparen(e)
			if tv := pk.TypesInfo.Types[e]; tv.Value != nil {
				return ""
			}
			switch x := e.(type) {
			case *ast.CallExpr:
				cal := callee(pk, x)
				if cal == nil {
					return "the result of " + exprString(x.Fun)
				}
				if cal.Name() == "NamedParameter" && len(x.Args) == 1 {
					if _, isK := constString(pk, x.Args[0]); isK {
						return ""
					}
				}
				return "the result of " + exprString(x.Fun)
			case *ast.IndexExpr:
				// the parameter map read directly: d.namedParameters["K"]
				if _, isMap := pk.TypesInfo.TypeOf(x.X).Underlying().(*types.Map); isMap && fieldSel(pk, x.X) != nil {
					if _, isK := constString(pk, x.Index); isK {
						return ""
					}
				}
				return "the value of " + exprString(x)
			case *ast.Ident:
				if depth > 3 {
					return "a chain of locals"
				}
				obj := pk.TypesInfo.Uses[x]
				v, isVar := obj.(*types.Var)
				if !isVar || v.IsField() || v.Pos() < f.Decl.Body.Pos() {
					return "the value of " + x.Name
				}
				why := ""
				ast.Inspect(f.Decl.Body, func(m ast.Node) bool {
					as, ok := m.(*ast.AssignStmt)
					if !ok {
						return true
					}
					for i, l := range as.Lhs {
						lid, ok := l.(*ast.Ident)
						if !ok || pk.TypesInfo.ObjectOf(lid) != obj {
							continue
						}
						if len(as.Lhs) != len(as.Rhs) {
							why = "a result of " + exprString(as.Rhs[0])
							continue
						}
						if w := verbatim(as.Rhs[i], depth+1); w != "" {
							why = w
						}
					}
					return true
				})
				return why
			}
			return "the value of " + exprString(e)
		}
		k := 0
		ast.Inspect(f.Decl.Body, func(nd ast.Node) bool {
			if _, isLit := nd.(*ast.FuncLit); isLit {
				return false
			}
			ret, ok := nd.(*ast.ReturnStmt)
			if !ok {
				return true
			}
			if len(ret.Results) == 1 {
				// return d.Parent.X(): the same accessor of the parent
				if call, ok := ast.Unparen(ret.Results[0]).(*ast.CallExpr); ok {
					n++
					k++
					key := fmt.Sprintf("%s | return #%d", f.Name(), k)
					if cal := callee(pk, call); cal != nil && cal == a {
						r.Ok(rule, key, "hands on what the same accessor of the parent returns", c.pos(ret.Pos()))
					} else if cal != nil && c.handsOnAccessor(cal, a, 0) {
						r.Ok(rule, key, "hands on what "+cal.Name()+" returns, which is the same accessor of the parent (or an error)", c.pos(ret.Pos()))
					} else {
						r.Bad(rule, key, "the accessor returns the result of "+exprString(call.Fun)+": what the key of the interaction is built from is no longer the parameter the fields of the interaction are filled from", c.pos(ret.Pos()))
					}
				}
				return true
			}
			if len(ret.Results) != 2 || !isNil(pk, ret.Results[1]) {
				return true
			}
			n++
			k++
			key := fmt.Sprintf("%s | return #%d", f.Name(), k)
			if why := verbatim(ret.Results[0], 0); why == "" {
				r.Ok(rule, key, "returns the named parameter as it stands", c.pos(ret.Pos()))
			} else {
				r.Bad(rule, key, "the accessor returns "+why+" instead of the parameter as it stands: the key of the interaction (built from the accessor) and its method/path fields, its tags and its path variables (built from the parameter) disagree for the inputs the function changes", c.pos(ret.Pos()))
			}
			return true
		})
	}
	if n < 4 {
		r.Undecided(rule, "sites", fmt.Sprintf("only %d returns of id accessors found", n), "")
	}
}

// handsOnAccessor: every return of the helper g hands on a call of the accessor a (or of another such helper), or
// fails (a zero string with a non-nil error).
func (c *Ctx) handsOnAccessor(g, a *types.Func, depth int) bool {
	h := c.fnOf(g)
	if h == nil || h.Decl == nil || h.Decl.Body == nil || depth > 2 {
		return false
	}
	ok, n := true, 0
	ast.Inspect(h.Decl.Body, func(nd ast.Node) bool {
		if _, isLit := nd.(*ast.FuncLit); isLit {
			return false
		}
		ret, isRet := nd.(*ast.ReturnStmt)
		if !isRet {
			return true
		}
		n++
		switch len(ret.Results) {
		case 1:
			call, isCall := ast.Unparen(ret.Results[0]).(*ast.CallExpr)
			if !isCall {
				ok = false
				return true
			}
			cal := callee(h.Pkg, call)
			if cal == nil || (cal != a && !c.handsOnAccessor(cal, a, depth+1)) {
				ok = false
			}
		case 2:
			if s, isStr := constString(h.Pkg, ret.Results[0]); !isStr || s != "" || isNil(h.Pkg, ret.Results[1]) {
				ok = false
			}
		default:
			ok = false
		}
		return true
	})
	return ok && n > 0
}

// ---------- every schema made from a body gets the rules of the project ----------

// ruleRulesEverywhere: an ENUM directive can be used in any JSight schema of the project ({enum: @name}). The schema
// library resolves the name when the schema is loaded, so the module has to hand the project's rules to every schema
// object it makes from the text of a body - all the constructors alike. One that forgets them refuses a document that
// the others accept.
func (c *Ctx) ruleRulesEverywhere(rule string) {
	r := c.R
	r.Rule(rule, "every function of the library that makes a JSight schema object from the text of a directive body (jschema.New with a content that is not a constant) hands ALL the rules of the project to THAT object before it is used: every path from the construction to a return without error passes a range loop over a map of schema rules (or a call of a library helper that contains one) whose every round calls AddRule(key, value) on the object made - or on the wrapper made around it; a function that only makes the object and returns it hands the obligation to each of its call sites (two levels): Path, Query, Headers, bodies and user types all know the ENUM directives of the project", 3)
	n := 0
	for _, f := range c.libFns() {
		pk := f.Pkg
		var news []*ast.CallExpr
		ast.Inspect(f.Decl.Body, func(nd ast.Node) bool {
			call, ok := nd.(*ast.CallExpr)
			if !ok || len(call.Args) < 2 {
				return true
			}
			cal := callee(pk, call)
			if cal == nil || cal.Name() != "New" || cal.Pkg() == nil || !strings.HasSuffix(cal.Pkg().Path(), "notations/jschema") {
				return true
			}
			if tv := pk.TypesInfo.Types[call.Args[1]]; tv.Value != nil {
				return true // a constant content: a scratch schema (the object builder of path variables)
			}
			news = append(news, call)
			return true
		})
		for _, mk := range news {
			n++
			key := f.Name() + " | " + exprString(mk.Fun)
			switch verdict, detail := c.rulesReachObject(f, mk, 0); verdict {
			case 0:
				r.Ok(rule, key, "every rule of the project is added to the schema on every path to a successful return"+detail, c.pos(mk.Pos()))
			case 1:
				r.Bad(rule, key, "a schema is made from the text of a body without the rules of the project: {enum: @name} in it is refused ('Enum is not found') although the ENUM is declared and the same schema is accepted under another directive"+detail, c.pos(mk.Pos()))
			default:
				r.Bad(rule, key, "a schema made from the text of a body can leave the function without the rules of the project ("+detail+")", c.pos(mk.Pos()))
			}
		}
	}
	if n < 3 {
		r.Undecided(rule, "sites", fmt.Sprintf("only %d constructions of a schema from a body found", n), "")
	}
}

// rulesReachObject: does the object made by the call mk in f get all the rules of the project before f (or, when f
// merely returns it, each caller of f) returns successfully? 0: yes; 1: no loop that gives them at all; 2: a
// successful return is reached around it.
func (c *Ctx) rulesReachObject(f *Fn, mk *ast.CallExpr, depth int) (int, string) {
	pk := f.Pkg
	// the bodies of the function and of its function literals
	var bodies []*ast.BlockStmt
	ast.Inspect(f.Decl.Body, func(nd ast.Node) bool {
		if lit, ok := nd.(*ast.FuncLit); ok {
			bodies = append(bodies, lit.Body)
		}
		return true
	})
	bodies = append(bodies, f.Decl.Body)
	innermost := func(nd ast.Node) *ast.BlockStmt {
		var best *ast.BlockStmt
		for _, b := range bodies {
			if b.Pos() <= nd.Pos() && nd.End() <= b.End() && (best == nil || b.End()-b.Pos() < best.End()-best.Pos()) {
				best = b
			}
		}
		return best
	}
	body := innermost(mk)
	fc := buildCFG(body)
	// the variables that hold the object made, or something made around it
	holders := map[types.Object]bool{}
	for round := 0; round < 3; round++ {
		ast.Inspect(body, func(nd ast.Node) bool {
			as, ok := nd.(*ast.AssignStmt)
			if !ok {
				return true
			}
			for i, lhs := range as.Lhs {
				id, ok := lhs.(*ast.Ident)
				if !ok {
					continue
				}
				obj := pk.TypesInfo.ObjectOf(id)
				if obj == nil || holders[obj] {
					continue
				}
				var rhs ast.Expr
				switch {
				case len(as.Lhs) == len(as.Rhs):
					rhs = as.Rhs[i]
				case len(as.Rhs) == 1 && i == 0:
					rhs = as.Rhs[0] // s, err := make(...)
				default:
					continue
				}
				from := false
				ast.Inspect(rhs, func(m ast.Node) bool {
					if m == ast.Node(mk) {
						from = true
					}
					if rid, ok := m.(*ast.Ident); ok && holders[pk.TypesInfo.Uses[rid]] {
						from = true
					}
					return !from
				})
				if from {
					holders[obj] = true
				}
			}
			return true
		})
	}
	rootHolder := func(e ast.Expr) bool {
		for {
			switch x := ast.Unparen(e).(type) {
			case *ast.SelectorExpr:
				e = x.X
				continue
			case *ast.StarExpr:
				e = x.X
				continue
			case *ast.Ident:
				return holders[pk.TypesInfo.Uses[x]]
			}
			return false
		}
	}
	// the nodes that give the object all the rules
	var gives []ast.Node
	ast.Inspect(body, func(nd ast.Node) bool {
		switch x := nd.(type) {
		case *ast.RangeStmt:
			if innermost(x) != body || !isRuleMap(pk.TypesInfo.TypeOf(x.X)) {
				return true
			}
			kid, _ := x.Key.(*ast.Ident)
			vid, _ := x.Value.(*ast.Ident)
			if kid == nil || vid == nil {
				return true
			}
			ko, vo := pk.TypesInfo.ObjectOf(kid), pk.TypesInfo.ObjectOf(vid)
			if fc.everyRoundPasses(x, func(m ast.Node) bool {
				call, ok := m.(*ast.CallExpr)
				if !ok || len(call.Args) != 2 {
					return false
				}
				cal := callee(pk, call)
				sel, isSel := ast.Unparen(call.Fun).(*ast.SelectorExpr)
				if cal == nil || cal.Name() != "AddRule" || !isSel || !rootHolder(sel.X) {
					return false
				}
				a0, _ := ast.Unparen(call.Args[0]).(*ast.Ident)
				a1, _ := ast.Unparen(call.Args[1]).(*ast.Ident)
				return a0 != nil && a1 != nil && pk.TypesInfo.Uses[a0] == ko && pk.TypesInfo.Uses[a1] == vo
			}) {
				gives = append(gives, emptinessGuardOf(pk, body, x))
			}
		case *ast.CallExpr:
			if innermost(x) != body {
				return true
			}
			if c.givesAllRules(pk, x, rootHolder) {
				gives = append(gives, x)
			}
		}
		return true
	})
	// every return without error that the construction reaches
	var open []*ast.ReturnStmt
	ast.Inspect(body, func(nd ast.Node) bool {
		if _, isLit := nd.(*ast.FuncLit); isLit {
			return false
		}
		ret, ok := nd.(*ast.ReturnStmt)
		if !ok {
			return true
		}
		if len(ret.Results) > 0 && !isNil(pk, ret.Results[len(ret.Results)-1]) {
			if isErrorLike(pk.TypesInfo.TypeOf(ret.Results[len(ret.Results)-1])) {
				return true // a failure: nothing leaves the function
			}
		}
		if ret.Pos() > mk.Pos() && ret.End() < mk.End() {
			return true
		}
		within := ret.Pos() <= mk.Pos() && mk.End() <= ret.End() // return jschema.New(...), nil
		if within || fc.reachesAvoiding(mk, ret, gives) {
			// a return on the side of a test that found no object (`if s == nil { return nil }`) lets nothing out
			noObject := fc.establishedAt(ret, func(cond ast.Expr, trueEdge bool) bool {
				be, ok := ast.Unparen(cond).(*ast.BinaryExpr)
				if !ok || !isNil(pk, be.Y) {
					return false
				}
				id, ok := ast.Unparen(be.X).(*ast.Ident)
				if !ok || !holders[pk.TypesInfo.Uses[id]] {
					return false
				}
				return (be.Op == token.EQL && trueEdge) || (be.Op == token.NEQ && !trueEdge)
			}, func(n ast.Node) bool {
				as, ok := n.(*ast.AssignStmt)
				if !ok {
					return false
				}
				for _, l := range as.Lhs {
					if id, ok := l.(*ast.Ident); ok && holders[pk.TypesInfo.ObjectOf(id)] {
						return true
					}
				}
				return false
			})
			if !noObject {
				open = append(open, ret)
			}
		}
		return true
	})
	if len(open) == 0 && len(gives) > 0 {
		return 0, ""
	}
	// a function that only makes the object and hands it back: its callers owe the rules
	if body == f.Decl.Body && depth < 2 && len(open) > 0 {
		handsBack := true
		for _, ret := range open {
			if len(ret.Results) == 0 {
				handsBack = false
				continue
			}
			res := ast.Unparen(ret.Results[0])
			contains := false
			ast.Inspect(res, func(m ast.Node) bool {
				if m == ast.Node(mk) {
					contains = true
				}
				return !contains
			})
			if !contains && !rootHolder(res) {
				handsBack = false
			}
		}
		if sites, all := c.callersOf(f); handsBack && all && len(sites) > 0 {
			for _, cs := range sites {
				if v, _ := c.rulesReachObject(cs.g, cs.call, depth+1); v != 0 {
					return v, "the function hands the schema back to " + cs.g.Name() + " at " + c.pos(cs.call.Pos()) + ", which does not add the rules on every path"
				}
			}
			return 0, fmt.Sprintf(" (the function hands the schema back; each of its %d call sites adds them)", len(sites))
		}
	}
	if len(gives) == 0 {
		return 1, ""
	}
	var at []string
	for _, ret := range open {
		at = append(at, c.pos(ret.Pos()))
	}
	return 2, "return at " + strings.Join(at, ", ") + " is reached around the loop that adds them"
}

// emptinessGuardOf: the node that stands for "the loop over x.X ran": the ranged expression, or - when the loop is the
// only statement of an if without else that merely asks whether the map has anything in it (len(m) > 0, len(m) != 0,
// m != nil) - the condition of that if (the path around the loop is then the path of an empty map).
func emptinessGuardOf(pk *packages.Package, body *ast.BlockStmt, x *ast.RangeStmt) ast.Node {
	var res ast.Node = x.X
	want := exprString(x.X)
	ast.Inspect(body, func(nd ast.Node) bool {
		ifs, ok := nd.(*ast.IfStmt)
		if !ok || ifs.Else != nil || ifs.Init != nil || len(ifs.Body.List) != 1 || ifs.Body.List[0] != ast.Stmt(x) {
			return true
		}
		be, ok := ast.Unparen(ifs.Cond).(*ast.BinaryExpr)
		if !ok {
			return true
		}
		if call, ok := ast.Unparen(be.X).(*ast.CallExpr); ok && len(call.Args) == 1 && exprString(call.Fun) == "len" && exprString(call.Args[0]) == want {
			if k, isK := constInt(pk, be.Y); isK && k == 0 && (be.Op == token.GTR || be.Op == token.NEQ) {
				res = ifs.Cond
			}
		}
		if be.Op == token.NEQ && exprString(be.X) == want && isNil(pk, be.Y) {
			res = ifs.Cond
		}
		return true
	})
	return res
}

// isRuleMap: a map whose elements are rules of the schema library.
func isRuleMap(t types.Type) bool {
	if t == nil {
		return false
	}
	m, ok := t.Underlying().(*types.Map)
	return ok && strings.HasSuffix(namedType(m.Elem()), "Rule")
}

// givesAllRules: the call hands a holder of the schema and a map of rules to a library function whose body adds every
// rule of that map to that parameter (one level of helper).
func (c *Ctx) givesAllRules(pk *packages.Package, call *ast.CallExpr, holder func(ast.Expr) bool) bool {
	cal := callee(pk, call)
	if cal == nil {
		return false
	}
	g := c.fnOf(cal)
	if g == nil || g.Decl == nil || g.Decl.Body == nil {
		return false
	}
	// which argument (or the receiver) is the holder, which the rules
	hIdx := -1
	if sel, ok := ast.Unparen(call.Fun).(*ast.SelectorExpr); ok && g.Decl.Recv != nil && holder(sel.X) {
		hIdx = -2
	}
	for i, a := range call.Args {
		if holder(a) {
			hIdx = i
		}
	}
	if hIdx == -1 {
		return false
	}
	var hObj types.Object
	if hIdx == -2 {
		if len(g.Decl.Recv.List) == 1 && len(g.Decl.Recv.List[0].Names) == 1 {
			hObj = g.Pkg.TypesInfo.Defs[g.Decl.Recv.List[0].Names[0]]
		}
	} else {
		hObj = paramObjAt(g, hIdx)
	}
	if hObj == nil {
		return false
	}
	gfc := buildCFG(g.Decl.Body)
	gHolder := func(e ast.Expr) bool {
		for {
			switch x := ast.Unparen(e).(type) {
			case *ast.SelectorExpr:
				e = x.X
				continue
			case *ast.StarExpr:
				e = x.X
				continue
			case *ast.Ident:
				return g.Pkg.TypesInfo.Uses[x] == hObj
			}
			return false
		}
	}
	var loops []ast.Node
	ast.Inspect(g.Decl.Body, func(nd ast.Node) bool {
		x, ok := nd.(*ast.RangeStmt)
		if !ok || !isRuleMap(g.Pkg.TypesInfo.TypeOf(x.X)) {
			return true
		}
		kid, _ := x.Key.(*ast.Ident)
		vid, _ := x.Value.(*ast.Ident)
		if kid == nil || vid == nil {
			return true
		}
		ko, vo := g.Pkg.TypesInfo.ObjectOf(kid), g.Pkg.TypesInfo.ObjectOf(vid)
		if gfc.everyRoundPasses(x, func(m ast.Node) bool {
			cl, ok := m.(*ast.CallExpr)
			if !ok || len(cl.Args) != 2 {
				return false
			}
			cc := callee(g.Pkg, cl)
			sel, isSel := ast.Unparen(cl.Fun).(*ast.SelectorExpr)
			if cc == nil || cc.Name() != "AddRule" || !isSel || !gHolder(sel.X) {
				return false
			}
			a0, _ := ast.Unparen(cl.Args[0]).(*ast.Ident)
			a1, _ := ast.Unparen(cl.Args[1]).(*ast.Ident)
			return a0 != nil && a1 != nil && g.Pkg.TypesInfo.Uses[a0] == ko && g.Pkg.TypesInfo.Uses[a1] == vo
		}) {
			loops = append(loops, emptinessGuardOf(g.Pkg, g.Decl.Body, x))
		}
		return true
	})
	if len(loops) == 0 {
		return false
	}
	// the helper's successful returns all lie behind the loop
	ok := true
	ast.Inspect(g.Decl.Body, func(nd ast.Node) bool {
		if _, isLit := nd.(*ast.FuncLit); isLit {
			return false
		}
		ret, isRet := nd.(*ast.ReturnStmt)
		if !isRet {
			return true
		}
		if len(ret.Results) > 0 && !isNil(g.Pkg, ret.Results[len(ret.Results)-1]) && isErrorLike(g.Pkg.TypesInfo.TypeOf(ret.Results[len(ret.Results)-1])) {
			return true
		}
		if gfc.reachesFromEntryAvoiding(ret, loops) {
			ok = false
		}
		return true
	})
	return ok
}


func isSelector(e ast.Expr) bool { _, ok := ast.Unparen(e).(*ast.SelectorExpr); return ok }

// appendsParamToReceiver: m is a one-parameter method (declared on a type, or on an interface - then every
// implementation in the library is looked at) whose body appends that parameter to a slice field of the
// receiver: `recv.F = append(recv.F, p)`. Recognised by what the method does, not by its name.
func (c *Ctx) appendsParamToReceiver(m *types.Func) bool {
	sig, _ := m.Type().(*types.Signature)
	if sig == nil || sig.Recv() == nil || sig.Params().Len() != 1 {
		return false
	}
	var impls []*Fn
	if types.IsInterface(sig.Recv().Type()) {
		iface, _ := sig.Recv().Type().Underlying().(*types.Interface)
		for _, f := range c.libFns() {
			fs, _ := f.Obj.Type().(*types.Signature)
			if f.Obj.Name() != m.Name() || fs == nil || fs.Recv() == nil || f.Decl == nil || f.Decl.Body == nil {
				continue
			}
			if iface != nil && (types.Implements(fs.Recv().Type(), iface) || types.Implements(types.NewPointer(derefType(fs.Recv().Type())), iface)) {
				impls = append(impls, f)
			}
		}
	} else if f := c.fnOf(m); f != nil {
		impls = append(impls, f)
	}
	if len(impls) == 0 {
		return false
	}
	for _, f := range impls {
		if f.Decl.Recv == nil || len(f.Decl.Recv.List) != 1 || len(f.Decl.Recv.List[0].Names) != 1 || len(f.Decl.Type.Params.List) != 1 || len(f.Decl.Type.Params.List[0].Names) != 1 {
			return false
		}
		recv, par := f.Pkg.TypesInfo.Defs[f.Decl.Recv.List[0].Names[0]], f.Pkg.TypesInfo.Defs[f.Decl.Type.Params.List[0].Names[0]]
		found := false
		ast.Inspect(f.Decl.Body, func(n ast.Node) bool {
			as, ok := n.(*ast.AssignStmt)
			if !ok || len(as.Lhs) != 1 || len(as.Rhs) != 1 {
				return true
			}
			call, ok := ast.Unparen(as.Rhs[0]).(*ast.CallExpr)
			if !ok || len(call.Args) != 2 {
				return true
			}
			if id, ok := call.Fun.(*ast.Ident); !ok || id.Name != "append" || f.Pkg.TypesInfo.Uses[id] != types.Universe.Lookup("append") {
				return true
			}
			lsel, ok := ast.Unparen(as.Lhs[0]).(*ast.SelectorExpr)
			if !ok {
				return true
			}
			lid, ok := ast.Unparen(lsel.X).(*ast.Ident)
			if !ok || f.Pkg.TypesInfo.Uses[lid] != recv || recv == nil {
				return true
			}
			if types.ExprString(call.Args[0]) != types.ExprString(as.Lhs[0]) {
				return true
			}
			if aid, ok := ast.Unparen(call.Args[1]).(*ast.Ident); ok && par != nil && f.Pkg.TypesInfo.Uses[aid] == par {
				found = true
			}
			return true
		})
		if !found {
			return false
		}
	}
	return true
}
