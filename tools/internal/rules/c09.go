package rules

import (
	"fmt"
	"go/ast"
	"go/constant"
	"go/token"
	"go/types"
	"sort"
	"strings"

	"golang.org/x/tools/go/packages"

	"jsverif/internal/prog"
)

func init() {
	register("C09", propC09, false, false)
	register("C15", propC15, false, false)
}

func propC09(c *Ctx) {
	c.R.Explanation = "Decides that the switch to and from an included file neither disturbs nor inspects parser state: (a) nothing reachable from processInclude / isScanningFinished stores into the pending directive, the open context, the directive list or a directive's links; (b) an error that depends on the open-context chain is raised at end of file only when the include stack is empty, and JSIGHT is refused only when it is not; (c) all per-file scanning state lives in the Scanner object made by NewJApiScanner, the stack is LIFO on one slice and nobody repositions a suspended scanner; (d) two inclusions of one file give distinct directives (identity by *fs.File pointer + position; every INCLUDE reads a fresh File); (e) every get-or-compute memo in the library is keyed by everything its value depends on (a resolution cached under the raw INCLUDE parameter would serve another directory's file). Not decided: equality of the catalogs of the split and the unsplit document."
	c.ruleNoWriteAtSwitch()
	c.ruleEOFScope()
	c.ruleScannerIsolation()
	c.ruleInstanceIdentity()
	c.ruleMemoCoverage("C09-MEMO-KEY-COVERS")
	c.ruleC14ValidateFirst()
	c.rulePhaseConstructor() // an error of a directive in an included file is located in that file
	c.ruleNoRewrap()         // ... and is not told again as the message of another one (the rendered trace of the inner error would be part of it)
	c.ruleTraceRecorder("C09-TRACE-RECORDER")
	// a piece may end without a line break wherever a line may end
	if m := c.E1Base(); m != nil {
		c.ruleOpenTransparent(m, "C09-OPEN-TRANSPARENT") // a piece may end right after an opening parenthesis: the scanner does not ask for the closing one
		c.ruleEOFAsEOL(m, c.Analysis(stackK, false))
		c.ruleStartState(m, "C09-START-STATE")
	}
	// the recursion guard must refuse only a file that is really on the stack: a set keyed by anything but the
	// file's own name refuses legal splits (two files with one base name) or misses a cycle
	c.ruleC14CycleGuard()
	// INCLUDE wherever a directive may start: the pre-filters of the Description text must let it through
	c.ruleFirstByteTables("C09-KEYWORD-PREFILTER")
	// a place is a (file, offset) pair
	c.rulePositionNeedsFile("C09-POSITION-NEEDS-FILE")
	// the piece that is included is the file as it is on disk: named by its path, its bytes unchanged (the line of an
	// error in the piece is a line of that file)
	c.ruleC14NameIsPath()
	// pushing a file onto the include stack must not fail for reasons that have nothing to do with the include graph
	c.ruleWriteLengthCheck("C09-WRITE-LENGTH-CHECK")
}

func (c *Ctx) ruleNoWriteAtSwitch() {
	r := c.R
	r.Rule("C09-NO-WRITE-AT-SWITCH", "functions reachable (inside package core and scanner) from processInclude and isScanningFinished contain no store to core.currentDirective, core.currentContextDirective, core.directives, nor to Directive.Parent/Children/HasExplicitContext/Annotation/BodyCoords; the only fields of the core they assign are scanner (and the stack's own)", 2)
	protected := map[string]bool{"currentDirective": true, "currentContextDirective": true, "directives": true, "directivesWithPastes": true,
		"Parent": true, "Children": true, "HasExplicitContext": true, "Annotation": true, "BodyCoords": true}
	for _, rootName := range []string{"JApiCore.processInclude", "JApiCore.isScanningFinished"} {
		root := c.fn("core", rootName)
		var region []ast.Node // when the switch is not a function of its own: the statements that make it
		if root == nil && rootName == "JApiCore.isScanningFinished" {
			// inlined: the switch back is the run of statements from the Pop of the scanner stack to the end of its block
			pop := c.P.LookupFunc("scanner", "Stack.Pop")
			for _, g := range c.libFns() {
				if g.Pkg.Types.Name() != "core" || pop == nil {
					continue
				}
				inspectWithStack(g.Decl.Body, func(nd ast.Node, stack []ast.Node) bool {
					blk, isBlk := nd.(*ast.BlockStmt)
					if !isBlk {
						return true
					}
					for i, st := range blk.List {
						if len(callsIn(g.Pkg, st, pop)) > 0 {
							if _, nested := st.(*ast.BlockStmt); nested {
								continue
							}
							direct := true
							ast.Inspect(st, func(m ast.Node) bool {
								if b, ok := m.(*ast.BlockStmt); ok && len(callsIn(g.Pkg, b, pop)) > 0 {
									direct = false
								}
								return true
							})
							if direct {
								root = g
								for _, rest := range blk.List[i:] {
									region = append(region, rest)
								}
							}
						}
					}
					return true
				})
			}
		}
		if root == nil {
			r.Undecided("C09-NO-WRITE-AT-SWITCH", rootName, "function not found", "")
			continue
		}
		bad := ""
		n := 0
		type unit struct {
			f    *Fn
			body ast.Node
		}
		var units []unit
		if region == nil {
			for _, f := range c.reachableInPkg(root) {
				units = append(units, unit{f, f.Decl.Body})
			}
		} else {
			seenFn := map[*types.Func]bool{}
			for _, st := range region {
				units = append(units, unit{root, st})
				ast.Inspect(st, func(m ast.Node) bool {
					if call, ok := m.(*ast.CallExpr); ok {
						if g := c.fnOf(callee(root.Pkg, call)); g != nil && g.Pkg == root.Pkg && !seenFn[g.Obj] {
							seenFn[g.Obj] = true
							for _, h := range c.reachableInPkg(g) {
								units = append(units, unit{h, h.Decl.Body})
							}
						}
					}
					return true
				})
			}
		}
		for _, u := range units {
			f := u.f
			n++
			pk := f.Pkg
			ast.Inspect(u.body, func(nd ast.Node) bool {
				switch x := nd.(type) {
				case *ast.AssignStmt:
					for _, l := range x.Lhs {
						if fld := fieldSel(pk, l); fld != nil && protected[fld.Name()] && c.P.IsLibPkg(fld.Pkg()) {
							bad = fmt.Sprintf("%s assigns %s at %s", f.Obj.Name(), exprString(l), c.pos(x.Pos()))
						}
					}
				case *ast.CallExpr:
					if cal := callee(pk, x); cal != nil && (cal.Name() == "processCurrentDirective" || cal.Name() == "processContext" || cal.Name() == "AppendChild") {
						// finalising the pending directive is what the next keyword would do anyway; allowed, but linking is not
						if cal.Name() != "processCurrentDirective" {
							bad = fmt.Sprintf("%s calls %s at %s", f.Obj.Name(), cal.Name(), c.pos(x.Pos()))
						}
					}
				}
				return true
			})
		}
		if bad == "" {
			r.Ok("C09-NO-WRITE-AT-SWITCH", rootName, fmt.Sprintf("%d functions reachable in the package, none writes parser state", n), c.pos(root.Decl.Pos()))
		} else {
			r.Bad("C09-NO-WRITE-AT-SWITCH", rootName, "the file switch touches parser state ("+bad+"): the pending directive or the open context does not survive the INCLUDE unchanged", c.pos(root.Decl.Pos()))
		}
	}
}

func (c *Ctx) ruleEOFScope() {
	r := c.R
	r.Rule("C09-EOF-SCOPE", "in processEOF the open-context error is conjoined with `scannersStack.Empty()` (an included file may leave a context open for its includer); in processKeyword the JSIGHT refusal is conjoined with `!scannersStack.Empty()`", 2)
	f := c.fn("core", "JApiCore.processEOF")
	if f == nil {
		r.Undecided("C09-EOF-SCOPE", "processEOF", "function not found", "")
	} else {
		pk := f.Pkg
		huc := c.P.LookupFunc("core", "JApiCore.HasUnclosedExplicitContext")
		res, found := false, false
		ast.Inspect(f.Decl.Body, func(n ast.Node) bool {
			ifs, ok := n.(*ast.IfStmt)
			if !ok || len(callsIn(pk, ifs.Cond, huc)) == 0 {
				return true
			}
			found = true
			// conjunct Empty() not negated
			var conj func(e ast.Expr)
			conj = func(e ast.Expr) {
				if be, ok := ast.Unparen(e).(*ast.BinaryExpr); ok && be.Op == token.LAND {
					conj(be.X)
					conj(be.Y)
					return
				}
				if call, ok := ast.Unparen(e).(*ast.CallExpr); ok {
					if cal := callee(pk, call); cal != nil && cal.Name() == "Empty" && strings.HasSuffix(namedType(cal.Type().(*types.Signature).Recv().Type()), "scanner.Stack") {
						res = true
					}
				}
			}
			conj(ifs.Cond)
			return true
		})
		// the emptiness of the include stack is asked about the file that has just ended: the test must not come after
		// a Pop of that stack in the same function (after the Pop, Empty() speaks about the file that is resumed)
		afterPop := false
		if pop := c.P.LookupFunc("scanner", "Stack.Pop"); pop != nil {
			fcf := buildCFG(f.Decl.Body)
			ast.Inspect(f.Decl.Body, func(n ast.Node) bool {
				ifs, ok := n.(*ast.IfStmt)
				if !ok || len(callsIn(pk, ifs.Cond, huc)) == 0 {
					return true
				}
				for _, pc := range callsIn(pk, f.Decl.Body, pop) {
					if fcf.reachesWithout(pc, ifs.Cond, nil) {
						afterPop = true
					}
				}
				return true
			})
		}
		switch {
		case !found:
			r.Bad("C09-EOF-SCOPE", "processEOF", "no open-context test at end of file", c.pos(f.Decl.Pos()))
		case afterPop:
			r.Bad("C09-EOF-SCOPE", "processEOF", "the include stack is popped before it is asked whether it is empty: the open-context error then fires when the ROOT file is resumed after an INCLUDE, although the context may still be closed there", c.pos(f.Decl.Pos()))
		case res:
			r.Ok("C09-EOF-SCOPE", "processEOF", "the error needs scannersStack.Empty(): only the end of the ROOT file closes the document", c.pos(f.Decl.Pos()))
		default:
			r.Bad("C09-EOF-SCOPE", "processEOF", "'parenthesis not closed' is raised at the end of an INCLUDEd file as well: a context opened in the includer and closed after the INCLUDE is rejected although the unsplit document is accepted", c.pos(f.Decl.Pos()))
		}
	}
	g := c.fn("core", "JApiCore.processKeyword")
	if g == nil {
		r.Undecided("C09-EOF-SCOPE", "processKeyword", "function not found", "")
		return
	}
	pk := g.Pkg
	// an error that processKeyword raises itself (it returns the result of a constructor that never returns nil) must
	// be reached only with "the include stack is not empty" and "the keyword is JSIGHT" established: nothing else may
	// tell a keyword of an included file from the same keyword in the unsplit document. Form-independent: edge facts,
	// predicate helpers opened up.
	gcf := c.cfgOf(g)
	emptyM := c.P.LookupFunc("scanner", "Stack.Empty")
	jsightC := c.enumConst("Jsight")
	notEmpty := func(cond ast.Expr, holds bool) bool {
		call, ok := ast.Unparen(cond).(*ast.CallExpr)
		return ok && emptyM != nil && callee(pk, call) == emptyM && !holds
	}
	isJsight := func(cond ast.Expr, holds bool) bool {
		be, ok := ast.Unparen(cond).(*ast.BinaryExpr)
		if !ok || jsightC == nil || !((be.Op == token.EQL && holds) || (be.Op == token.NEQ && !holds)) {
			return false
		}
		found := false
		ast.Inspect(be, func(n ast.Node) bool {
			if e, ok := n.(ast.Expr); ok && constObj(pk, e) == jsightC {
				found = true
			}
			return true
		})
		return found
	}
	own, bad := 0, 0
	ast.Inspect(g.Decl.Body, func(n ast.Node) bool {
		if _, isLit := n.(*ast.FuncLit); isLit {
			return false
		}
		ret, isRet := n.(*ast.ReturnStmt)
		if !isRet || len(ret.Results) != 1 {
			return true
		}
		call, isCall := ast.Unparen(ret.Results[0]).(*ast.CallExpr)
		if !isCall {
			return true
		}
		cal := callee(pk, call)
		if cal == nil || !c.alwaysNonNil(cal) {
			return true
		}
		// an error that no test of the include stack leads to is raised for the split and the unsplit document alike
		// (an unknown keyword, a banned directive - also when the function that raises them has been inlined here)
		if !gcf.establishedAt(ret, func(cond ast.Expr, holds bool) bool {
			call, ok := ast.Unparen(cond).(*ast.CallExpr)
			return ok && emptyM != nil && callee(pk, call) == emptyM
		}, nil) {
			return true
		}
		own++
		if !gcf.establishedAt(ret, notEmpty, nil) {
			bad++
			r.Bad("C09-EOF-SCOPE", "processKeyword", "an error raised for a keyword is not conditioned on the include stack being non-empty: the keyword is refused in the unsplit document as well, or only there", c.pos(ret.Pos()))
		} else if !gcf.establishedAt(ret, isJsight, nil) {
			bad++
			r.Bad("C09-EOF-SCOPE", "processKeyword", "an error raised for a keyword of an included file is not restricted to JSIGHT: a directive that is legal in the unsplit document is refused after the split", c.pos(ret.Pos()))
		}
		return true
	})
	if bad == 0 {
		r.Ok("C09-EOF-SCOPE", "processKeyword", fmt.Sprintf("%d error(s) raised by the keyword step itself, each only for JSIGHT with a non-empty include stack", own), c.pos(g.Decl.Pos()))
	}
}

func (c *Ctx) ruleScannerIsolation() {
	r := c.R
	r.Rule("C09-SCANNER-ISOLATION", "Scanner values are built only by NewJApiScanner; Stack.Push appends to, and Stack.Pop takes the last element from, one slice; SetCurrentIndex has no caller in the library; package scanner has no package-level mutable state", 3)
	n := 0
	for _, f := range c.libFns() {
		pk := f.Pkg
		ast.Inspect(f.Decl.Body, func(nd ast.Node) bool {
			if cl, ok := nd.(*ast.CompositeLit); ok && namedType(pk.TypesInfo.TypeOf(cl)) == prog.ModulePath+"/scanner.Scanner" {
				if f.Name() == "scanner.NewJApiScanner" {
					n++
				} else {
					r.Bad("C09-SCANNER-ISOLATION", "Scanner built in "+f.Name(), "a Scanner is constructed outside NewJApiScanner: per-file state may be shared or half-initialised", c.pos(cl.Pos()))
				}
			}
			return true
		})
	}
	if n == 1 {
		r.Ok("C09-SCANNER-ISOLATION", "single constructor", "NewJApiScanner is the only place that builds a Scanner", "")
	} else {
		r.Bad("C09-SCANNER-ISOLATION", "single constructor", fmt.Sprintf("%d Scanner literals in NewJApiScanner", n), "")
	}
	sci := c.P.LookupFunc("scanner", "Scanner.SetCurrentIndex")
	callers := 0
	for _, f := range c.libFns() {
		callers += len(callsIn(f.Pkg, f.Decl.Body, sci))
	}
	if callers == 0 {
		r.Ok("C09-SCANNER-ISOLATION", "no repositioning", "SetCurrentIndex has no caller in the library: a suspended scanner resumes exactly where it stopped", "")
	} else {
		r.Bad("C09-SCANNER-ISOLATION", "no repositioning", "SetCurrentIndex is called: a suspended scanner can be moved", "")
	}
	if pop := c.fn("scanner", "Stack.Pop"); pop != nil {
		sf := c.stackFacts()
		switch {
		case sf.err != "":
			r.Undecided("C09-SCANNER-ISOLATION", "LIFO", sf.err, c.pos(pop.Decl.Pos()))
		case sf.popLIFO != "" || sf.popShrinks != "":
			r.Bad("C09-SCANNER-ISOLATION", "LIFO", "Pop does not take the last pushed scanner: "+sf.popLIFO+" "+sf.popShrinks, c.pos(pop.Decl.Pos()))
		default:
			r.Ok("C09-SCANNER-ISOLATION", "LIFO", "Pop returns the scanner of element len-1 of the slice Push appends to, and cuts that element off (abstract evaluation, terms compared)", c.pos(pop.Decl.Pos()))
		}
	}
}

func (c *Ctx) ruleInstanceIdentity() {
	r := c.R
	r.Rule("C09-INSTANCE-IDENTITY", "Directive.Equal identifies a directive by the *fs.File POINTER of its keyword coordinates and the begin index (compared with ==), not by the file's name: the same file included twice yields distinct directives because readFile builds a new File for every INCLUDE", 2)
	f := c.fn("directive", "Directive.Equal")
	if f == nil {
		r.Ok("C09-INSTANCE-IDENTITY", "Equal", "there is no Directive.Equal: directives are told apart by identity", "")
		c.ruleFreshFile()
		return
	}
	// inline one level of same-package helpers
	var bodies []*Fn
	bodies = append(bodies, c.reachableInPkg(f)...)
	ptrCmp, nameCall := false, false
	for _, g := range bodies {
		pk := g.Pkg
		ast.Inspect(g.Decl.Body, func(n ast.Node) bool {
			switch x := n.(type) {
			case *ast.BinaryExpr:
				if x.Op == token.EQL {
					if fld := fieldSel(pk, x.X); fld != nil && fld.Name() == "file" {
						if _, isPtr := fld.Type().(*types.Pointer); isPtr {
							ptrCmp = true
						}
					}
				}
			case *ast.CallExpr:
				if sel, ok := ast.Unparen(x.Fun).(*ast.SelectorExpr); ok && sel.Sel.Name == "Name" {
					nameCall = true
				}
			}
			return true
		})
	}
	users := 0
	for _, g := range c.libFns() {
		if g.Pkg != f.Pkg {
			users += len(callsIn(g.Pkg, g.Decl.Body, f.Obj))
		}
	}
	if users == 0 {
		r.Ok("C09-INSTANCE-IDENTITY", "Equal", "no function outside package directive decides by Directive.Equal (see C10-COPY-IDENTITY): how it compares cannot affect the catalog", c.pos(f.Decl.Pos()))
	} else if ptrCmp && !nameCall {
		r.Ok("C09-INSTANCE-IDENTITY", "Equal", "compares the *fs.File pointers and the begin index", c.pos(f.Decl.Pos()))
	} else {
		r.Bad("C09-INSTANCE-IDENTITY", "Equal", "directives are identified by file NAME and position: two inclusions of one file give 'equal' directives, so e.g. the Path of the second inclusion is taken for a repetition of the first", c.pos(f.Decl.Pos()))
	}
	c.ruleFreshFile()
}

// ruleFreshFile: every INCLUDE builds a new File: in the function that reads the included file (a path-taking read
// primitive outside package kit) the content goes into an fs.NewFile call of the same function.
func (c *Ctx) ruleFreshFile() {
	r := c.R
	n := 0
	for _, g := range c.libFns() {
		if g.Pkg.Types.Name() == "kit" {
			continue
		}
		reads, fresh := false, false
		ast.Inspect(g.Decl.Body, func(nd ast.Node) bool {
			if call, ok := nd.(*ast.CallExpr); ok {
				if cal := callee(g.Pkg, call); cal != nil && cal.Pkg() != nil {
					if cal.Pkg().Path() == "os" && (cal.Name() == "ReadFile" || cal.Name() == "Open") {
						reads = true
					}
					if cal.Name() == "NewFile" && strings.HasSuffix(cal.Pkg().Path(), "/fs") {
						fresh = true
					}
				}
			}
			return true
		})
		if !reads {
			continue
		}
		n++
		if fresh {
			r.Ok("C09-INSTANCE-IDENTITY", "new File | "+g.Name(), "every INCLUDE builds a new fs.File from what it read", c.pos(g.Decl.Pos()))
		} else {
			r.Bad("C09-INSTANCE-IDENTITY", "new File | "+g.Name(), "included files are not fresh File objects", c.pos(g.Decl.Pos()))
		}
	}
	if n == 0 {
		r.Undecided("C09-INSTANCE-IDENTITY", "new File", "no function reads an included file", "")
	}
}

// ---------- memo coverage ----------

// exprDeps: the parameters, receiver fields and globals an expression depends on; locals are followed through their definitions.
func exprDeps(pk *packages.Package, body *ast.BlockStmt, e ast.Expr) map[string]bool {
	deps := map[string]bool{}
	seen := map[types.Object]bool{}
	var visit func(e ast.Node, depth int)
	visit = func(e ast.Node, depth int) {
		if depth > 8 || e == nil {
			return
		}
		ast.Inspect(e, func(n ast.Node) bool {
			switch x := n.(type) {
			case *ast.SelectorExpr:
				if fieldSel(pk, x) != nil {
					// root of the field path
					root := ast.Expr(x)
					for {
						if s2, ok := ast.Unparen(root).(*ast.SelectorExpr); ok && fieldSel(pk, s2) != nil {
							root = s2.X
							continue
						}
						break
					}
					if rid, ok := ast.Unparen(root).(*ast.Ident); ok {
						if v, ok := pk.TypesInfo.Uses[rid].(*types.Var); ok && v.Pos() >= body.Pos() && v.Pos() <= body.End() {
							return true // a field of a local value: follow the local's definition (the Ident case below)
						}
					}
					if p := accessPath(pk, x); p != "" {
						deps[prettyPath(p)] = true
						return false
					}
				}
			case *ast.Ident:
				obj := pk.TypesInfo.Uses[x]
				v, ok := obj.(*types.Var)
				if !ok || v.IsField() {
					return true
				}
				if v.Parent() == pk.Types.Scope() {
					deps["global "+v.Name()] = true
					return true
				}
				local := v.Pos() >= body.Pos() && v.Pos() <= body.End()
				if !local {
					deps[v.Name()] = true
					return true
				}
				if seen[obj] {
					return true
				}
				seen[obj] = true
				ast.Inspect(body, func(m ast.Node) bool {
					switch as := m.(type) {
					case *ast.AssignStmt:
						for i, l := range as.Lhs {
							if lid, ok := l.(*ast.Ident); ok && (pk.TypesInfo.Defs[lid] == obj || pk.TypesInfo.Uses[lid] == obj) {
								if len(as.Rhs) == 1 {
									visit(as.Rhs[0], depth+1)
								} else if i < len(as.Rhs) {
									visit(as.Rhs[i], depth+1)
								}
							}
						}
					case *ast.RangeStmt:
						for _, rv := range []ast.Expr{as.Key, as.Value} {
							if lid, ok := rv.(*ast.Ident); ok && pk.TypesInfo.Defs[lid] == obj {
								visit(as.X, depth+1)
							}
						}
					}
					return true
				})
			}
			return true
		})
	}
	visit(e, 0)
	return deps
}

// memoKeyExceptions: memos handled by a more precise rule.
var memoKeyExceptions = map[string]string{
	"scanner.(*Stack).ToDirectiveIncludeTracer": "decided by C07-MEMO-KEY (recorded finding F16)",
}

func (c *Ctx) ruleMemoCoverage(rule string) {
	r := c.R
	r.Rule(rule, "every get-or-compute memo in the library (a lookup in a long-lived map or ordered map whose hit returns the stored value, and a store under that key in the same function) is keyed by everything the stored value is computed from: the parameters and fields the value depends on are a subset of those the key depends on", 1)
	n := 0
	for _, f := range c.libFns() {
		pk := f.Pkg
		if strings.HasSuffix(pk.Fset.Position(f.Decl.Pos()).Filename, "_gen.go") {
			continue
		}
		type hit struct {
			m   string
			key ast.Expr
			pos token.Pos
		}
		var hits []hit
		ast.Inspect(f.Decl.Body, func(nd ast.Node) bool {
			ifs, ok := nd.(*ast.IfStmt)
			if !ok || len(ifs.Body.List) == 0 {
				return true
			}
			as, ok := ifs.Init.(*ast.AssignStmt)
			if !ok || len(as.Lhs) != 2 || len(as.Rhs) != 1 {
				return true
			}
			vid, _ := as.Lhs[0].(*ast.Ident)
			if vid == nil || vid.Name == "_" {
				return true
			}
			ret, isRet := ifs.Body.List[len(ifs.Body.List)-1].(*ast.ReturnStmt)
			if !isRet {
				return true
			}
			usesV := false
			ast.Inspect(ret, func(m ast.Node) bool {
				if id, ok := m.(*ast.Ident); ok && pk.TypesInfo.Uses[id] == pk.TypesInfo.Defs[vid] {
					usesV = true
				}
				return true
			})
			if !usesV {
				return true
			}
			if b, k, isIdx := indexOn(pk, as.Rhs[0]); isIdx {
				if p := accessPath(pk, b); p != "" && fieldSel(pk, b) != nil {
					hits = append(hits, hit{p, k, ifs.Pos()})
				}
			} else if call, isCall := ast.Unparen(as.Rhs[0]).(*ast.CallExpr); isCall && len(call.Args) == 1 {
				if cal := callee(pk, call); cal != nil && cal.Name() == "Get" {
					if sel, ok := ast.Unparen(call.Fun).(*ast.SelectorExpr); ok && orderedMapType(pk.TypesInfo.TypeOf(sel.X)) {
						hits = append(hits, hit{accessPath(pk, sel.X), call.Args[0], ifs.Pos()})
					}
				}
			}
			return true
		})
		for _, h := range hits {
			// the store
			var val ast.Expr
			ast.Inspect(f.Decl.Body, func(nd ast.Node) bool {
				switch x := nd.(type) {
				case *ast.AssignStmt:
					if len(x.Lhs) == 1 && len(x.Rhs) == 1 {
						if b, _, isIdx := indexOn(pk, x.Lhs[0]); isIdx && accessPath(pk, b) == h.m {
							val = x.Rhs[0]
						}
					}
				case *ast.CallExpr:
					if cal := callee(pk, x); cal != nil && cal.Name() == "Set" && len(x.Args) == 2 {
						if sel, ok := ast.Unparen(x.Fun).(*ast.SelectorExpr); ok && accessPath(pk, sel.X) == h.m {
							val = x.Args[1]
						}
					}
				}
				return true
			})
			if val == nil {
				continue // a plain lookup, not a memo
			}
			n++
			key := fmt.Sprintf("%s | memo %s", f.Name(), prettyPath(h.m))
			if why, ok := memoKeyExceptions[f.Name()]; ok {
				r.Ok(rule, key, "handled elsewhere: "+why, c.pos(h.pos))
				continue
			}
			kd, vd := exprDeps(pk, f.Decl.Body, h.key), exprDeps(pk, f.Decl.Body, val)
			var missing []string
			for d := range vd {
				if !kd[d] && d != prettyPath(h.m) {
					missing = append(missing, d)
				}
			}
			sort.Strings(missing)
			if len(missing) == 0 {
				r.Ok(rule, key, fmt.Sprintf("key depends on %v, value on %v", keysOf(kd), keysOf(vd)), c.pos(h.pos))
			} else {
				r.Bad(rule, key, fmt.Sprintf("the cached value depends on %v which the key (%s, depending on %v) does not cover: the same key is served a value computed for another context", missing, exprString(h.key), keysOf(kd)), c.pos(h.pos))
			}
		}
	}
	if n == 0 {
		r.Undecided(rule, "sites", "no memo found (pathTag and the include tracer used to match)", "")
	}
}

// =====================================================================
// C15
// =====================================================================

func propC15(c *Ctx) {
	c.R.Explanation = "Equality under permutation is behavioural and not decided. Decided is the phase-order necessary condition: along the straight-line pipeline scanProject -> compileCore{collectMacro, checkMacroForRecursion, processPaste, collectRules, collectTags, collectUserTypes, collectPaths, addMissed...} -> buildCatalog -> compileCatalog -> validateCatalog, for every cross-block name space (macros, enums/rules, tags, user types) the last phase that inserts names precedes the first phase that resolves names (a lookup whose miss is an error); rules are attached to a user type only while its schema is still fresh; every memo is keyed by what its value depends on; and the keyword pre-filters used to end a Description cover every keyword. Today the tag name space violates it (path tags are created while Tags are resolved): recorded finding F20."
	c.ruleCollectBeforeUse()
	c.ruleNoEagerCompile()
	c.ruleStatefulInBuild()
	c.ruleSymmetricRegistry("C15-SYMMETRIC-REGISTRY")
	c.ruleRulesBeforeLoad()
	c.ruleMemoCoverage("C15-MEMO-KEY-COVERS")
	c.ruleFirstByteTables("C15-KEYWORD-PREFILTER")
	c.ruleNextDirectiveRecognised("C15-NEXT-DIRECTIVE")
	c.ruleInsertAliasing("C15-INSERT-ALIASING")
	c.ruleWalkResultDiscarded("C15-WALK-RESULT-DISCARDED") // a walk over the user types that ends early makes what follows depend on the order of the blocks
	// block order: a top-level block must not inherit from the block before it (a root-list directive gets no Parent),
	// and a name declared by one block is never replaced by what a later block creates implicitly
	c.ruleC11WalkUp()
	c.ruleHasBeforeSet()
	c.ruleRecursionVisitedOnly()
}

type nsAccess struct {
	fn   string
	pos  token.Pos
	kind string // insert | resolve
	// insert: the boolean fields that only the constructor of the inserted value sets (a mark on what this site adds);
	// resolve: the boolean fields of the value found whose being set makes the lookup fail like a miss
	marks []string
}

// nameSpaces: collection access paths (by field name) that hold cross-block names.
var nameSpaces = map[string]string{
	"macro": "macros", "rules": "enums", "UserEnums": "enums", "Tags": "tags",
	"rawUserTypes": "user types", "userTypes": "user types", "UserTypes": "user types",
	"catalogUserTypes": "user types", // the exchange schemas keep a pointer to catalog.UserTypes under this name
}

// nameSpaceOf: the name space an expression denotes: one of the known cross-block spaces, or -- for any other map or
// ordered-map field of a struct of the module (a set of seen URLs, of operation ids, ...) -- a space of its own, so
// that a lookup whose miss is an error in the phase that still fills the collection is found wherever it is added.
func (c *Ctx) nameSpaceOf(pk *packages.Package, e ast.Expr) string {
	fld := fieldSel(pk, e)
	if fld == nil {
		return ""
	}
	if sp := nameSpaces[fld.Name()]; sp != "" {
		return sp
	}
	if fld.Pkg() == nil || !c.P.IsLibPkg(fld.Pkg()) {
		return ""
	}
	if _, isMap := fld.Type().Underlying().(*types.Map); isMap || orderedMapType(fld.Type()) {
		return "field " + fld.Name()
	}
	return ""
}

func (c *Ctx) ruleCollectBeforeUse() {
	r := c.R
	r.Rule("C15-COLLECT-BEFORE-USE", "phases = the calls of processJApiProject and compileCore in order. For each name space (macros: core.macro; enums: core.rules + catalog.UserEnums; tags: catalog.Tags; user types: rawUserTypes, userTypes, catalog.UserTypes): an INSERT is a map store / Set; a RESOLVE is a lookup (comma-ok index, Get) whose miss branch returns an error. No phase that inserts may come after, or be the same as, a phase that resolves - except inserts guarded by their own duplicate test only", 4)
	phases := c.pipelinePhases()
	if len(phases) < 8 {
		r.Undecided("C15-COLLECT-BEFORE-USE", "pipeline", fmt.Sprintf("only %d phases recognised", len(phases)), "")
		return
	}
	type acc struct {
		phase int
		a     nsAccess
	}
	bySpace := map[string][]acc{}
	for i, ph := range phases {
		for _, f := range c.reachableAcrossLib(ph) {
			pk := f.Pkg
			if strings.HasSuffix(pk.Fset.Position(f.Decl.Pos()).Filename, "_gen.go") {
				continue
			}
			spaceOf := func(e ast.Expr) string { return c.nameSpaceOf(pk, e) }
			ast.Inspect(f.Decl.Body, func(nd ast.Node) bool {
				switch x := nd.(type) {
				case *ast.AssignStmt:
					for _, l := range x.Lhs {
						if b, _, ok := indexOn(pk, l); ok {
							if sp := spaceOf(b); sp != "" {
								bySpace[sp] = append(bySpace[sp], acc{i, nsAccess{f.Name(), x.Pos(), "insert", nil}})
							}
						}
					}
				case *ast.CallExpr:
					cal := callee(pk, x)
					if cal == nil {
						return true
					}
					if sel, ok := ast.Unparen(x.Fun).(*ast.SelectorExpr); ok {
						if sp := spaceOf(sel.X); sp != "" && (cal.Name() == "Set" || cal.Name() == "SetToTop") {
							var marks []string
							if len(x.Args) == 2 {
								marks = c.constructorMarks(f, x.Args[1])
							}
							bySpace[sp] = append(bySpace[sp], acc{i, nsAccess{f.Name(), x.Pos(), "insert", marks}})
						}
					}
				case *ast.IfStmt:
					// resolve: v, ok := M[k] / X.Get(k); !ok -> error
					as, ok := x.Init.(*ast.AssignStmt)
					var lookup ast.Expr
					var okObj types.Object
					if ok && len(as.Lhs) == 2 && len(as.Rhs) == 1 {
						lookup = as.Rhs[0]
						if id, isId := as.Lhs[1].(*ast.Ident); isId {
							okObj = pk.TypesInfo.Defs[id]
						}
					}
					if lookup == nil {
						return true
					}
					sp := ""
					if b, _, isIdx := indexOn(pk, lookup); isIdx {
						sp = spaceOf(b)
					} else if call, isCall := ast.Unparen(lookup).(*ast.CallExpr); isCall {
						if cal := callee(pk, call); cal != nil && cal.Name() == "Get" {
							if sel, ok := ast.Unparen(call.Fun).(*ast.SelectorExpr); ok {
								sp = spaceOf(sel.X)
							}
						}
					}
					if sp == "" {
						return true
					}
					if u, isNot := ast.Unparen(x.Cond).(*ast.UnaryExpr); isNot && u.Op == token.NOT {
						if id, isId := ast.Unparen(u.X).(*ast.Ident); isId && pk.TypesInfo.Uses[id] == okObj && returnsNonNilError(pk, x.Body.List) {
							bySpace[sp] = append(bySpace[sp], acc{i, nsAccess{f.Name(), x.Pos(), "resolve", nil}})
						}
					}
				}
				return true
			})
		}
	}
	// also `t, ok := c.Tags.Get(tn); if !ok {return err}` written as two statements
	for i, ph := range phases {
		for _, f := range c.reachableAcrossLib(ph) {
			pk := f.Pkg
			ast.Inspect(f.Decl.Body, func(nd ast.Node) bool {
				blk, ok := nd.(*ast.BlockStmt)
				if !ok {
					return true
				}
				for j, st := range blk.List {
					as, ok := st.(*ast.AssignStmt)
					if !ok || len(as.Lhs) != 2 || len(as.Rhs) != 1 || j+1 >= len(blk.List) {
						continue
					}
					call, ok := ast.Unparen(as.Rhs[0]).(*ast.CallExpr)
					if !ok {
						continue
					}
					cal := callee(pk, call)
					sel, isSel := ast.Unparen(call.Fun).(*ast.SelectorExpr)
					if cal == nil || cal.Name() != "Get" || !isSel {
						continue
					}
					fld := fieldSel(pk, sel.X)
					if fld == nil || c.nameSpaceOf(pk, sel.X) == "" {
						continue
					}
					ifs, ok := blk.List[j+1].(*ast.IfStmt)
					if !ok {
						continue
					}
					// `if !ok { return err }`, also `if !ok || v.mark { return err }`: when the condition is false the
					// name was found (and the value found carries none of the marks tested)
					if okId, ok2 := as.Lhs[1].(*ast.Ident); ok2 && returnsNonNilError(pk, ifs.Body.List) {
						found := false
						var marks []string
						for _, a := range impliedAtoms(ifs.Cond, false) {
							if id, isId := ast.Unparen(a.e).(*ast.Ident); isId && a.holds && pk.TypesInfo.Uses[id] == objOf(pk, okId) {
								found = true
							}
							if fsel, isSel := ast.Unparen(a.e).(*ast.SelectorExpr); isSel && !a.holds {
								if vid, isId := ast.Unparen(fsel.X).(*ast.Ident); isId {
									if v0, isId0 := as.Lhs[0].(*ast.Ident); isId0 && pk.TypesInfo.Uses[vid] == objOf(pk, v0) {
										marks = append(marks, fsel.Sel.Name)
									}
								}
							}
						}
						if found {
							sp := c.nameSpaceOf(pk, sel.X)
							bySpace[sp] = append(bySpace[sp], acc{i, nsAccess{f.Name(), ifs.Pos(), "resolve", marks}})
						}
					}
				}
				return true
			})
		}
	}
	// ... and as a membership test: `if ... && !X.Has(name) { return <error> }`
	for i, ph := range phases {
		for _, f := range c.reachableAcrossLib(ph) {
			pk := f.Pkg
			if strings.HasSuffix(pk.Fset.Position(f.Decl.Pos()).Filename, "_gen.go") {
				continue
			}
			ast.Inspect(f.Decl.Body, func(nd ast.Node) bool {
				ifs, ok := nd.(*ast.IfStmt)
				if !ok || !returnsNonNilError(pk, ifs.Body.List) {
					return true
				}
				for _, a := range impliedAtoms(ifs.Cond, true) {
					call, isCall := ast.Unparen(a.e).(*ast.CallExpr)
					if !isCall || a.holds {
						continue
					}
					cal := callee(pk, call)
					sel, isSel := ast.Unparen(call.Fun).(*ast.SelectorExpr)
					if cal == nil || !isSel || (cal.Name() != "Has" && cal.Name() != "Contains" && cal.Name() != "Exists") {
						continue
					}
					// only the cross-block name spaces: a membership test on a collection that the directive's own parent
					// has filled (the interaction of the enclosing method, the enclosing SERVER) follows the tree, not
					// the order of independent blocks
					if sp := c.nameSpaceOf(pk, sel.X); sp != "" && !strings.HasPrefix(sp, "field ") {
						bySpace[sp] = append(bySpace[sp], acc{i, nsAccess{f.Name(), ifs.Pos(), "resolve", nil}})
					}
				}
				return true
			})
		}
	}
	// ... and a lookup whose HIT is acted upon (`if ut, ok := X.Get(name); ok && ... { <no error> }`): what the build does
	// then depends on whether the name was already registered when this block was reached. (A hit that returns an error
	// is the duplicate test of an insert.)
	for i, ph := range phases {
		for _, f := range c.reachableAcrossLib(ph) {
			pk := f.Pkg
			if strings.HasSuffix(pk.Fset.Position(f.Decl.Pos()).Filename, "_gen.go") {
				continue
			}
			ast.Inspect(f.Decl.Body, func(nd ast.Node) bool {
				ifs, ok := nd.(*ast.IfStmt)
				if !ok || ifs.Init == nil || returnsNonNilError(pk, ifs.Body.List) {
					return true
				}
				as, ok := ifs.Init.(*ast.AssignStmt)
				if !ok || len(as.Lhs) != 2 || len(as.Rhs) != 1 {
					return true
				}
				okId, isId := as.Lhs[1].(*ast.Ident)
				if !isId || okId.Name == "_" {
					return true
				}
				sp := ""
				if b, _, isIdx := indexOn(pk, as.Rhs[0]); isIdx {
					sp = c.nameSpaceOf(pk, b)
				} else if call, isCall := ast.Unparen(as.Rhs[0]).(*ast.CallExpr); isCall {
					if cal := callee(pk, call); cal != nil && cal.Name() == "Get" {
						if sel, ok := ast.Unparen(call.Fun).(*ast.SelectorExpr); ok {
							sp = c.nameSpaceOf(pk, sel.X)
						}
					}
				}
				if sp == "" || strings.HasPrefix(sp, "field ") {
					return true
				}
				hit := false
				for _, a := range impliedAtoms(ifs.Cond, true) {
					if id, ok := ast.Unparen(a.e).(*ast.Ident); ok && a.holds && pk.TypesInfo.Uses[id] == pk.TypesInfo.Defs[okId] {
						hit = true
					}
				}
				if hit {
					bySpace[sp] = append(bySpace[sp], acc{i, nsAccess{f.Name(), ifs.Pos(), "resolve", nil}})
				}
				return true
			})
		}
	}
	var spaces []string
	for sp := range bySpace {
		spaces = append(spaces, sp)
	}
	sort.Strings(spaces)
	for _, sp := range spaces {
		if c.nsOnlyFields && !strings.HasPrefix(sp, "field ") {
			continue // the cross-block name spaces are C15's business
		}
		firstResolve := len(phases)
		var resolveAt nsAccess
		for _, a := range bySpace[sp] {
			if a.a.kind == "resolve" && a.phase < firstResolve {
				firstResolve, resolveAt = a.phase, a.a
			}
		}
		if firstResolve == len(phases) {
			r.OkTrivial("C15-COLLECT-BEFORE-USE", "name space "+sp, "no resolving lookup in the pipeline (resolution is done by the dependency)", "")
			continue
		}
		var late []string
		seen := map[string]bool{}
		marked := 0
		for _, a := range bySpace[sp] {
			if a.a.kind == "insert" && a.phase >= firstResolve {
				// a late insert whose entries carry a mark is harmless when every lookup that can see them refuses
				// marked entries like a miss (or is the get-or-create of the inserting function itself, or a named
				// exception): a reference then resolves to declared names only, whatever was created on the way
				if len(a.a.marks) > 0 {
					harmless := true
					for _, b := range bySpace[sp] {
						if b.a.kind != "resolve" || b.phase < a.phase || b.a.fn == a.a.fn {
							continue
						}
						if why, ok := lateInsertResolverExceptions[b.a.fn]; ok {
							r.Except(b.a.fn, why)
							continue
						}
						refuses := false
						for _, m := range b.a.marks {
							for _, m2 := range a.a.marks {
								if m == m2 {
									refuses = true
								}
							}
						}
						if !refuses {
							harmless = false
						}
					}
					if harmless {
						marked++
						continue
					}
				}
				k := fmt.Sprintf("%s (phase %s)", a.a.fn, phases[a.phase].Obj.Name())
				if !seen[k] {
					seen[k] = true
					late = append(late, k)
				}
			}
		}
		sort.Strings(late)
		if len(late) == 0 && marked > 0 {
			r.Ok("C15-COLLECT-BEFORE-USE", "name space "+sp, fmt.Sprintf("the entries inserted while phase %s resolves names carry a mark set only by their constructor, and every lookup of that phase refuses marked entries like a miss: a reference resolves to declared names only", phases[firstResolve].Obj.Name()), c.pos(resolveAt.pos))
			continue
		}
		if len(late) == 0 {
			r.Ok("C15-COLLECT-BEFORE-USE", "name space "+sp, fmt.Sprintf("all inserts precede the first resolving lookup (%s, phase %s)", resolveAt.fn, phases[firstResolve].Obj.Name()), c.pos(resolveAt.pos))
			continue
		}
		for _, l := range late {
			r.Bad("C15-COLLECT-BEFORE-USE", "name space "+sp+": insert in "+l, fmt.Sprintf("names of this space are still being inserted when phase %s already resolves them (%s): whether a reference resolves depends on the order of the blocks", phases[firstResolve].Obj.Name(), resolveAt.fn), c.pos(resolveAt.pos))
		}
	}
}

// lateInsertResolverExceptions: lookups that cannot meet an entry created on the way, confirmed by reading.
var lateInsertResolverExceptions = map[string]string{
	"catalog.(*Catalog).AddDescriptionToTag": "resolves the name of the TAG directive the Description stands under (core.addTagDescription is the handler of a Description whose parent is a TAG and hands over that parent's Name); every TAG is collected by collectTags, a phase before any path tag exists, so the name is found among the declared tags",
}

// constructorMarks: e is a variable made by a constructor of the module whose returned literal sets boolean fields to
// true: the names of those fields, provided no other function of the package sets them (a mark on what this
// constructor makes).
func (c *Ctx) constructorMarks(f *Fn, e ast.Expr) []string {
	id, ok := ast.Unparen(e).(*ast.Ident)
	if !ok {
		return nil
	}
	def := soleDef(f, id)
	call, ok := ast.Unparen(def).(*ast.CallExpr)
	if !ok {
		return nil
	}
	cal := callee(f.Pkg, call)
	if cal == nil {
		return nil
	}
	k := c.fnOf(cal)
	if k == nil || k.Decl == nil || k.Decl.Body == nil {
		return nil
	}
	var marks []string
	ast.Inspect(k.Decl.Body, func(nd ast.Node) bool {
		ret, ok := nd.(*ast.ReturnStmt)
		if !ok || len(ret.Results) != 1 {
			return true
		}
		x := ast.Unparen(ret.Results[0])
		if u, ok := x.(*ast.UnaryExpr); ok && u.Op == token.AND {
			x = ast.Unparen(u.X)
		}
		lit, ok := x.(*ast.CompositeLit)
		if !ok {
			return true
		}
		for _, el := range lit.Elts {
			kv, ok := el.(*ast.KeyValueExpr)
			if !ok {
				continue
			}
			kid, ok := kv.Key.(*ast.Ident)
			if !ok {
				continue
			}
			if tv := k.Pkg.TypesInfo.Types[kv.Value]; tv.Value != nil && tv.Value.String() == "true" {
				marks = append(marks, kid.Name)
			}
		}
		return true
	})
	// the mark is a mark only if nothing else sets it
	var out []string
	for _, m := range marks {
		others := 0
		for _, g := range c.libFns() {
			if g.Pkg != k.Pkg || g.Obj == k.Obj {
				continue
			}
			ast.Inspect(g.Decl.Body, func(nd ast.Node) bool {
				switch x := nd.(type) {
				case *ast.KeyValueExpr:
					if kid, ok := x.Key.(*ast.Ident); ok && kid.Name == m {
						if fv, isF := g.Pkg.TypesInfo.Uses[kid].(*types.Var); isF && fv.IsField() {
							others++
						}
					}
				case *ast.AssignStmt:
					for _, l := range x.Lhs {
						if fv := fieldSel(g.Pkg, l); fv != nil && fv.Name() == m {
							others++
						}
					}
				}
				return true
			})
		}
		if others == 0 {
			out = append(out, m)
		}
	}
	return out
}

// pipelinePhases: the core methods called, in order, by processJApiProject with compileCore expanded.
func (c *Ctx) pipelinePhases() []*Fn {
	var out []*Fn
	expand := func(f *Fn) []*Fn {
		var calls []*Fn
		ast.Inspect(f.Decl.Body, func(n ast.Node) bool {
			if call, ok := n.(*ast.CallExpr); ok {
				if cal := callee(f.Pkg, call); cal != nil && cal.Pkg() == f.Obj.Pkg() {
					if sig := cal.Type().(*types.Signature); sig.Recv() != nil {
						if g := c.fnOf(cal); g != nil {
							calls = append(calls, g)
						}
					}
				}
			}
			return true
		})
		return calls
	}
	pj := c.fn("core", "JApiCore.processJApiProject")
	if pj == nil {
		return nil
	}
	for _, g := range expand(pj) {
		if g.Obj.Name() == "compileCore" {
			out = append(out, expand(g)...)
		} else {
			out = append(out, g)
		}
	}
	return out
}

// reachableAcrossLib: library functions reachable from f through static calls (AST), across packages.
func (c *Ctx) reachableAcrossLib(root *Fn) []*Fn {
	seen := map[*types.Func]bool{root.Obj: true}
	out := []*Fn{root}
	for i := 0; i < len(out); i++ {
		f := out[i]
		ast.Inspect(f.Decl.Body, func(n ast.Node) bool {
			switch x := n.(type) {
			case *ast.CallExpr:
				if cal := callee(f.Pkg, x); cal != nil && c.P.IsLibPkg(cal.Pkg()) && !seen[cal] {
					if g := c.fnOf(cal); g != nil {
						seen[cal] = true
						out = append(out, g)
					}
				}
			case *ast.SelectorExpr:
				// method values (core.catalog.AddJsonRpcParams passed as argument)
				if m, ok := f.Pkg.TypesInfo.Uses[x.Sel].(*types.Func); ok && c.P.IsLibPkg(m.Pkg()) && !seen[m.Origin()] {
					if g := c.fnOf(m.Origin()); g != nil {
						seen[m.Origin()] = true
						out = append(out, g)
					}
				}
			}
			return true
		})
	}
	// handlers registered in the dispatch table are reached from addDirective
	if root.Obj.Name() == "buildCatalog" {
		if ctor := c.fn("core", "NewJApiCore"); ctor != nil {
			ast.Inspect(ctor.Decl.Body, func(n ast.Node) bool {
				if kv, ok := n.(*ast.KeyValueExpr); ok {
					if sel, ok := ast.Unparen(kv.Value).(*ast.SelectorExpr); ok {
						if m, ok := ctor.Pkg.TypesInfo.Uses[sel.Sel].(*types.Func); ok && !seen[m] {
							if g := c.fnOf(m); g != nil {
								seen[m] = true
								out = append(out, c.reachableAcrossLib(g)...)
							}
						}
					}
				}
				return true
			})
		}
	}
	return out
}

// ruleNoEagerCompile: a JSight exchange schema resolves the user types it names (allOf parents, shortcuts) in
// catalog.UserTypes when it is compiled. That table is complete only when the phase that builds the catalog is over:
// it is filled directive by directive, in the order of the text. A compile inside that phase finds the types declared
// above the directive and misses the ones declared below it.
func (c *Ctx) ruleNoEagerCompile() {
	r := c.R
	r.Rule("C15-NO-EAGER-COMPILE", "no function reachable from the phase that fills catalog.UserTypes (buildCatalog) calls a method of *catalog.ExchangeJSightSchema that compiles the schema (Compile itself, or a method of the type from which Compile is reachable inside package catalog): exchange schemas are compiled lazily, after every TYPE of the document has been added", 1)
	phases := c.pipelinePhases()
	var build *Fn
	for _, ph := range phases {
		if prog.FuncName(ph.Obj) == "core.(*JApiCore).buildCatalog" {
			build = ph
		}
	}
	comp := c.P.LookupFunc("catalog", "ExchangeJSightSchema.Compile")
	if build == nil || comp == nil {
		r.Undecided("C15-NO-EAGER-COMPILE", "anchor", "buildCatalog / ExchangeJSightSchema.Compile not found", "")
		return
	}
	// methods of the type that reach Compile
	compiling := map[*types.Func]bool{comp: true}
	for changed := true; changed; {
		changed = false
		for _, f := range c.libFns() {
			if f.Pkg.Types != comp.Pkg() || compiling[f.Obj] {
				continue
			}
			sig := f.Obj.Type().(*types.Signature)
			if sig.Recv() == nil || !strings.HasSuffix(namedType(sig.Recv().Type()), "catalog.ExchangeJSightSchema") {
				continue
			}
			ast.Inspect(f.Decl.Body, func(n ast.Node) bool {
				if _, isLit := n.(*ast.FuncLit); isLit {
					return true
				}
				if call, ok := n.(*ast.CallExpr); ok {
					if cal := callee(f.Pkg, call); cal != nil && compiling[cal] {
						compiling[f.Obj] = true
						changed = true
					}
				}
				return true
			})
		}
	}
	n, bad := 0, 0
	for _, f := range c.reachableAcrossLib(build) {
		// the compiling methods themselves and what they call are not "callers in the phase"
		if compiling[f.Obj] {
			continue
		}
		n++
		ast.Inspect(f.Decl.Body, func(nd ast.Node) bool {
			call, ok := nd.(*ast.CallExpr)
			if !ok {
				return true
			}
			cal := callee(f.Pkg, call)
			if cal == nil || !compiling[cal] {
				return true
			}
			// a call made from inside a compiling method's own helpers is part of a later compile
			bad++
			r.Bad("C15-NO-EAGER-COMPILE", f.Name()+" | "+exprString(call.Fun), "an exchange schema is compiled while the catalog is still being filled: the user types it names are looked up in catalog.UserTypes, which holds only the TYPEs declared above this directive - the same document with the TYPE block moved below is rejected", c.pos(call.Pos()))
			return true
		})
	}
	if bad == 0 {
		var names []string
		for m := range compiling {
			names = append(names, m.Name())
		}
		sort.Strings(names)
		r.Ok("C15-NO-EAGER-COMPILE", "phase buildCatalog", fmt.Sprintf("%d functions reachable from the phase, none calls a compiling method (%s)", n, strings.Join(names, ", ")), c.pos(build.Decl.Pos()))
	}
}

// ruleStatefulInBuild: a regex user type is one object shared by every body that may name it, and its example generator
// is stateful (each Example() gives the next sample). jschema's AddType converts a regex type through FromRSchema, which
// takes an example: done once per body while the catalog is built, it hands every body the "next" sample, so which
// sample a body shows depends on how many bodies were built before it - on the order of the blocks.
func (c *Ctx) ruleStatefulInBuild() {
	r := c.R
	r.Rule("C15-STATEFUL-IN-BUILD", "no function of the build phases calls, once per body or directive, a function of the dependency that advances the example generator of a shared user type (the functions that reach (*regex.RSchema).Example in the dependency's call graph, reference/dep_stateful.json): what one body gets must not depend on how many were built before it", 1)
	reach, why := c.depReach()
	if reach == nil {
		r.Undecided("C15-STATEFUL-IN-BUILD", "reference", why, "")
		return
	}
	// also the classified function itself
	classes := map[string]string{}
	for k, v := range reach {
		if strings.HasPrefix(v, "stateful") {
			classes[k] = v
		}
	}
	for k, v := range depAPI {
		if strings.HasPrefix(v, "stateful") {
			classes[k] = v
		}
	}
	gate := c.exampleGateField()
	n := 0
	perCallee := map[string]int{}
	for _, f := range c.libFns() {
		pk := f.Pkg
		inspectWithStack(f.Decl.Body, func(nd ast.Node, stack []ast.Node) bool {
			call, ok := nd.(*ast.CallExpr)
			if !ok {
				return true
			}
			cal := callee(pk, call)
			if cal == nil {
				return true
			}
			class, ok := classes[cal.FullName()]
			if !ok {
				return true
			}
			// inside a sync.Once closure the call happens once per object: the memo of the serialisers (C16-DEP-CALLS)
			for i := len(stack) - 1; i >= 1; i-- {
				if fl, isLit := stack[i].(*ast.FuncLit); isLit {
					if oc, isCall := stack[i-1].(*ast.CallExpr); isCall && len(oc.Args) == 1 && oc.Args[0] == ast.Expr(fl) {
						if m := callee(pk, oc); m != nil && m.Name() == "Do" && m.Pkg() != nil && m.Pkg().Path() == "sync" {
							return true
						}
					}
				}
			}
			if c.onlyOnceDoArg(f) {
				return true // a method that is only ever handed to Once.Do as a method value: the same memo
			}
			// the state is that of a regex schema: the call matters only where a receiver or argument can be one
			carries := false
			operands := append([]ast.Expr{}, call.Args...)
			if sel, isSel := ast.Unparen(call.Fun).(*ast.SelectorExpr); isSel {
				operands = append(operands, sel.X)
			}
			for _, a := range operands {
				if tv, has := pk.TypesInfo.Types[a]; has && tv.Type != nil && mayHoldRegexSchema(tv.Type) {
					carries = true
				}
			}
			if !carries {
				return true
			}
			if freshRegexReceiver(f, call) {
				return true // the sample is drawn from a scratch schema made here: no shared generator advances
			}
			n++
			// keyed by what is called, not by the function that happens to hold the call: moving the loop into a
			// helper is the same finding, a second call of the same function elsewhere is a new one
			perCallee[cal.FullName()]++
			key := "once per body | " + shortName(cal.FullName())
			if k := perCallee[cal.FullName()]; k > 1 {
				key = fmt.Sprintf("%s #%d", key, k)
			}
			if why := c.exampleHiddenFor(f, gate, 0); why != "" {
				r.Ok("C15-STATEFUL-IN-BUILD", key, "the sample taken here is never shown: "+why, c.pos(call.Pos()))
				return true
			}
			r.Bad("C15-STATEFUL-IN-BUILD", key, "the dependency function is "+class+" and is called once per body while the catalog is built, on user types shared by all bodies: the example a body shows for a regex user type depends on how many bodies were built before it, so swapping two independent blocks changes the catalog", c.pos(call.Pos()))
			return true
		})
	}
	// a module function that keeps the sample of a stateful call in a once-only memo (the serialisers' way of taking
	// it) is as stateful for whoever calls it first: a call of it from the build phases takes the sample early, at a
	// moment that depends on what was built before
	memoFns := map[*types.Func]bool{}
	for _, f := range c.libFns() {
		pk := f.Pkg
		inspectWithStack(f.Decl.Body, func(nd ast.Node, stack []ast.Node) bool {
			call, ok := nd.(*ast.CallExpr)
			if !ok {
				return true
			}
			cal := callee(pk, call)
			if cal == nil {
				return true
			}
			if _, ok := classes[cal.FullName()]; !ok {
				return true
			}
			for i := len(stack) - 1; i >= 1; i-- {
				if fl, isLit := stack[i].(*ast.FuncLit); isLit {
					if oc, isCall := stack[i-1].(*ast.CallExpr); isCall && len(oc.Args) == 1 && oc.Args[0] == ast.Expr(fl) && isStdOnceDo(callee(pk, oc)) {
						memoFns[f.Obj] = true
					}
				}
			}
			return true
		})
	}
	// the functions of the build phases, not looking into the memo functions
	buildReach := map[*types.Func]bool{}
	var work []*Fn
	for _, ph := range c.pipelinePhases() {
		if !buildReach[ph.Obj] {
			buildReach[ph.Obj] = true
			work = append(work, ph)
		}
	}
	for _, h := range c.dispatchTable() { // the per-directive handlers are reached through the dispatch table
		if hf := c.fnOf(h); hf != nil && !buildReach[h] {
			buildReach[h] = true
			work = append(work, hf)
		}
	}
	for len(work) > 0 {
		f := work[0]
		work = work[1:]
		ast.Inspect(f.Decl.Body, func(nd ast.Node) bool {
			var m *types.Func
			switch x := nd.(type) {
			case *ast.CallExpr:
				m = callee(f.Pkg, x)
			case *ast.SelectorExpr:
				m, _ = f.Pkg.TypesInfo.Uses[x.Sel].(*types.Func)
			}
			if m != nil {
				m = m.Origin()
				if c.P.IsLibPkg(m.Pkg()) && !buildReach[m] && !memoFns[m] {
					if g := c.fnOf(m); g != nil {
						buildReach[m] = true
						work = append(work, g)
					}
				}
			}
			return true
		})
	}
	for _, f := range c.libFns() {
		if !buildReach[f.Obj] || memoFns[f.Obj] {
			continue
		}
		pk := f.Pkg
		ast.Inspect(f.Decl.Body, func(nd ast.Node) bool {
			call, ok := nd.(*ast.CallExpr)
			if !ok {
				return true
			}
			cal := callee(pk, call)
			if cal == nil || !memoFns[cal] || !c.P.IsLibPkg(cal.Pkg()) {
				return true
			}
			g := c.fnOf(cal)
			if g == nil {
				return true
			}
			n++
			key := fmt.Sprintf("%s | %s", f.Name(), exprString(call.Fun))
			r.Bad("C15-STATEFUL-IN-BUILD", key, "a function of the build phases calls "+prog.FuncName(cal)+", which takes (and keeps) the next sample of a stateful example generator: how many samples were drawn before depends on the blocks that were built earlier, so the kept example changes when independent blocks are swapped", c.pos(call.Pos()))
			return true
		})
	}
	if n == 0 {
		r.Ok("C15-STATEFUL-IN-BUILD", "library", "no such call outside a once-only memo", "")
	}
}

// exampleGateField: the boolean field of a schema wrapper that switches its example off: the wrapper's MarshalJSON
// takes Example() only under "if !e.<field>".
func (c *Ctx) exampleGateField() *types.Var {
	var out *types.Var
	for _, f := range c.libFns() {
		if f.Obj.Name() != "MarshalJSON" {
			continue
		}
		ast.Inspect(f.Decl.Body, func(n ast.Node) bool {
			is, ok := n.(*ast.IfStmt)
			if !ok {
				return true
			}
			u, ok := ast.Unparen(is.Cond).(*ast.UnaryExpr)
			if !ok || u.Op != token.NOT {
				return true
			}
			sel, ok := ast.Unparen(u.X).(*ast.SelectorExpr)
			if !ok {
				return true
			}
			fv, ok := f.Pkg.TypesInfo.Uses[sel.Sel].(*types.Var)
			if !ok || !fv.IsField() {
				return true
			}
			takes := false
			ast.Inspect(is.Body, func(m ast.Node) bool {
				if call, isCall := m.(*ast.CallExpr); isCall {
					if cal := callee(f.Pkg, call); cal != nil && cal.Name() == "Example" {
						takes = true
					}
				}
				return true
			})
			if takes && is.Else == nil {
				out = fv
			}
			return true
		})
	}
	return out
}

// exampleHiddenFor: the schema the function f works on ends in a wrapper whose example is switched off. Either f (or,
// when f only serves a builder, every function that calls it, up to three levels) wraps the schema and sets the gate
// field to true on the wrapper before returning it.
func (c *Ctx) exampleHiddenFor(f *Fn, gate *types.Var, depth int) string {
	if gate == nil || depth > 3 {
		return ""
	}
	sets, wraps := false, false
	ast.Inspect(f.Decl.Body, func(n ast.Node) bool {
		switch x := n.(type) {
		case *ast.AssignStmt:
			for i, l := range x.Lhs {
				if sel, ok := ast.Unparen(l).(*ast.SelectorExpr); ok && f.Pkg.TypesInfo.Uses[sel.Sel] == types.Object(gate) && i < len(x.Rhs) {
					if tv, has := f.Pkg.TypesInfo.Types[x.Rhs[i]]; has && tv.Value != nil && constant.BoolVal(tv.Value) {
						sets = true
					}
				}
			}
		case *ast.CallExpr:
			if tv, has := f.Pkg.TypesInfo.Types[x]; has && tv.Type != nil {
				t := tv.Type
				if p, ok := t.(*types.Pointer); ok {
					t = p.Elem()
				}
				if nm, ok := t.(*types.Named); ok {
					if st, ok := nm.Underlying().(*types.Struct); ok {
						for i := 0; i < st.NumFields(); i++ {
							if st.Field(i) == gate {
								wraps = true
							}
						}
					}
				}
			}
		}
		return true
	})
	if wraps {
		if sets {
			return f.Name() + " wraps the schema and sets " + gate.Name() + " on the wrapper"
		}
		return ""
	}
	// f does not wrap: look at who uses it. Methods of a builder are reached through the builder's other methods.
	sites, _ := c.callersOf(f)
	if len(sites) == 0 {
		return ""
	}
	why := ""
	seen := map[*Fn]bool{}
	for _, s := range sites {
		if seen[s.g] || s.g == f {
			continue
		}
		seen[s.g] = true
		w := c.exampleHiddenFor(s.g, gate, depth+1)
		if w == "" {
			return ""
		}
		why = w
	}
	return why
}

// mayHoldRegexSchema: the static type is the regex schema (or a struct embedding it), or an interface: a value of it can
// be a regex schema. A concrete type of another notation cannot.
func mayHoldRegexSchema(t types.Type) bool {
	if p, ok := t.(*types.Pointer); ok {
		t = p.Elem()
	}
	switch u := t.(type) {
	case *types.Named:
		if o := u.Obj(); o != nil && o.Name() == "RSchema" && o.Pkg() != nil && strings.HasSuffix(o.Pkg().Path(), "notations/regex") {
			return true
		}
		switch st := u.Underlying().(type) {
		case *types.Interface:
			return true
		case *types.Struct:
			for i := 0; i < st.NumFields(); i++ {
				if st.Field(i).Embedded() && mayHoldRegexSchema(st.Field(i).Type()) {
					return true
				}
			}
		}
	case *types.Interface:
		return true
	}
	return false
}

// madeHere: the root of the receiver is a local that this function made with a constructor (x := New...(..), or a
// literal wrapped around one) - or a parameter / the receiver of an unexported function every call site of which hands
// over such a value (two levels).
func (c *Ctx) madeHere(f *Fn, root ast.Expr, depth int) bool {
	pk := f.Pkg
	for {
		if s2, ok := ast.Unparen(root).(*ast.SelectorExpr); ok && fieldSel(pk, s2) != nil {
			root = s2.X
			continue
		}
		break
	}
	id, ok := ast.Unparen(root).(*ast.Ident)
	if !ok {
		return false
	}
	obj := pk.TypesInfo.Uses[id]
	if obj == nil {
		return false
	}
	if idx := paramIndexOf(f, id); idx != -1 && depth < 2 && !paramAssigned(f, id) {
		sites, all := c.callersOf(f)
		if !all || len(sites) == 0 {
			return false
		}
		for _, cs := range sites {
			arg := argFor(cs, idx)
			if arg == nil || !c.madeHere(cs.g, arg, depth+1) {
				return false
			}
		}
		return true
	}
	fresh := false
	ast.Inspect(f.Decl.Body, func(m ast.Node) bool {
		if as, ok := m.(*ast.AssignStmt); ok {
			for i, l := range as.Lhs {
				if lid, ok := l.(*ast.Ident); ok && (pk.TypesInfo.Defs[lid] == obj || pk.TypesInfo.Uses[lid] == obj) && i < len(as.Rhs) {
					// a wrapper made here around a schema made here: &T{JSchema: jschema.New(...)}
					rhs := ast.Unparen(as.Rhs[i])
					if u, ok := rhs.(*ast.UnaryExpr); ok && u.Op == token.AND {
						rhs = ast.Unparen(u.X)
					}
					if lit, ok := rhs.(*ast.CompositeLit); ok {
						for _, el := range lit.Elts {
							v := el
							if kv, ok := el.(*ast.KeyValueExpr); ok {
								v = kv.Value
							}
							if cc, ok := ast.Unparen(v).(*ast.CallExpr); ok && strings.Contains(exprString(cc.Fun), "New") {
								fresh = true
							}
						}
					}
					if cc, ok := ast.Unparen(as.Rhs[i]).(*ast.CallExpr); ok {
						name := exprString(cc.Fun)
						if strings.HasSuffix(name, ".New") || strings.HasPrefix(name, "new") || strings.Contains(name, "New") {
							fresh = true
						} else {
							fresh = false
						}
					}
				}
			}
		}
		return true
	})
	return fresh
}

func (c *Ctx) ruleRulesBeforeLoad() {
	r := c.R
	r.Rule("C15-RULES-BEFORE-LOAD", "AddRule is applied only to a schema that the same function has just created (jschema.New / regex.New / a fresh exchange schema), never to a user type fetched from the type table: a schema that another type may already have loaded no longer accepts rules, which made acceptance depend on the declaration order", 2)
	n := 0
	for _, f := range c.libFns() {
		pk := f.Pkg
		ast.Inspect(f.Decl.Body, func(nd ast.Node) bool {
			call, ok := nd.(*ast.CallExpr)
			if !ok {
				return true
			}
			cal := callee(pk, call)
			if cal == nil || cal.Name() != "AddRule" {
				return true
			}
			sel, ok := ast.Unparen(call.Fun).(*ast.SelectorExpr)
			if !ok {
				return true
			}
			n++
			key := fmt.Sprintf("%s | %s.AddRule", f.Name(), exprString(sel.X))
			// receiver root variable must be assigned from a constructor call in this function
			root := sel.X
			for {
				if s2, ok := ast.Unparen(root).(*ast.SelectorExpr); ok && fieldSel(pk, s2) != nil {
					root = s2.X
					continue
				}
				break
			}
			fresh := c.madeHere(f, root, 0)
			if fresh {
				r.Ok("C15-RULES-BEFORE-LOAD", key, "the schema was created in this function (or handed in, freshly made, by every caller)", c.pos(call.Pos()))
			} else {
				r.Bad("C15-RULES-BEFORE-LOAD", key, "rules are added to a schema that was not created here (it may already be loaded by a type declared elsewhere): acceptance depends on the declaration order", c.pos(call.Pos()))
			}
			return true
		})
	}
	if n == 0 {
		r.Undecided("C15-RULES-BEFORE-LOAD", "sites", "no AddRule call found", "")
	}
}

// ruleRecursionVisitedOnly: the memo of compiled user types is inserted before recursing and never deleted.
func (c *Ctx) ruleRecursionVisitedOnly() {
	r := c.R
	r.Rule("C15-VISITED-SET", "processedUserTypes is only ever inserted into (no delete, no reassignment outside NewJApiCore), so the result of compiling a type does not depend on which type was compiled first", 1)
	fld := c.coreField("processedUserTypes")
	if fld == nil {
		r.Undecided("C15-VISITED-SET", "anchor", "core.JApiCore.processedUserTypes not found", "")
		return
	}
	bad := ""
	for _, f := range c.libFns() {
		pk := f.Pkg
		ast.Inspect(f.Decl.Body, func(nd ast.Node) bool {
			switch x := nd.(type) {
			case *ast.CallExpr:
				if id, ok := x.Fun.(*ast.Ident); ok && (id.Name == "delete" || id.Name == "clear") && len(x.Args) > 0 && fieldSel(pk, x.Args[0]) == fld {
					bad = f.Name() + " removes entries"
				}
			case *ast.AssignStmt:
				for _, l := range x.Lhs {
					if fieldSel(pk, l) == fld && f.Obj.Name() != "NewJApiCore" {
						bad = f.Name() + " reassigns the set"
					}
				}
			}
			return true
		})
	}
	if bad == "" {
		r.Ok("C15-VISITED-SET", "processedUserTypes", "insert-only", "")
	} else {
		r.Bad("C15-VISITED-SET", "processedUserTypes", bad, "")
	}
}

// ---------- keyword pre-filters ----------

// ruleFirstByteTables: in directive.IsStartWithDirective and scanner.(*Scanner).isDirective every constant byte set that
// lets the function return false early must contain the first byte of every keyword spelling and the digits 1-5.
func (c *Ctx) ruleFirstByteTables(rule string) {
	r := c.R
	r.Rule(rule, "the functions that decide whether a line inside a Description starts a directive (directive.IsStartWithDirective, scanner.isDirective) may return false early on the first byte only through a constant byte set that contains the first byte of EVERY keyword of the directive table and the digits 1-5 (response codes); otherwise a directive after a Description is swallowed into the text", 2)
	t := c.Tables()
	if len(t.Problems) > 0 {
		r.Undecided(rule, "tables", "directive tables not readable", "")
		return
	}
	need := map[byte]string{}
	var kws []string
	for w := range t.KeywordSet() {
		kws = append(kws, w)
	}
	sort.Strings(kws)
	for _, w := range kws {
		if need[w[0]] == "" {
			need[w[0]] = w
		} else {
			need[w[0]] += ", " + w
		}
	}
	for _, d := range "12345" {
		need[byte(d)] = "response code"
	}
	for _, spec := range [][2]string{{"directive", "IsStartWithDirective"}, {"scanner", "Scanner.isDirective"}} {
		f := c.fn(spec[0], spec[1])
		if f == nil {
			r.Undecided(rule, spec[1], "function not found", "")
			continue
		}
		pk := f.Pkg
		var sets []struct {
			set map[byte]bool
			pos token.Pos
		}
		ast.Inspect(f.Decl.Body, func(nd ast.Node) bool {
			switch x := nd.(type) {
			case *ast.IfStmt:
				// if !strings.ContainsRune(LIT, ...) { return false }
				if !returnsFalse(pk, x.Body.List) {
					return true
				}
				ast.Inspect(x.Cond, func(m ast.Node) bool {
					if call, ok := m.(*ast.CallExpr); ok {
						if cal := callee(pk, call); cal != nil && cal.Pkg() != nil && (cal.Pkg().Path() == "strings" || cal.Pkg().Path() == "bytes") && len(call.Args) == 2 {
							if lit, ok := constString(pk, call.Args[0]); ok {
								s := map[byte]bool{}
								for i := 0; i < len(lit); i++ {
									s[lit[i]] = true
								}
								sets = append(sets, struct {
									set map[byte]bool
									pos token.Pos
								}{s, call.Pos()})
							}
						}
					}
					return true
				})
			case *ast.SwitchStmt:
				// switch <byte> { case ...: (fall out) default: return false }
				var def *ast.CaseClause
				s := map[byte]bool{}
				for _, cs := range x.Body.List {
					cc := cs.(*ast.CaseClause)
					if cc.List == nil {
						def = cc
						continue
					}
					for _, e := range cc.List {
						if k, ok := constInt(pk, e); ok && k >= 0 && k < 256 {
							s[byte(k)] = true
						}
					}
				}
				if def != nil && returnsFalse(pk, def.Body) {
					sets = append(sets, struct {
						set map[byte]bool
						pos token.Pos
					}{s, x.Pos()})
				}
			}
			return true
		})
		// in any form (helper predicates, tagless switches, inverted tests): run the function's own tests with every
		// byte-valued expression standing for the first byte of a keyword; if all that is left is `false`, lines that
		// start with this keyword are filtered out before the keyword table is asked
		var filtered []string
		var needBytes []int
		for b := range need {
			needBytes = append(needBytes, int(b))
		}
		sort.Ints(needBytes)
		for _, b := range needBytes {
			bb := byte(b)
			env := &constEnv{c: c}
			env.leaf = func(g *Fn, e ast.Expr) (constant.Value, bool) {
				tv, ok := g.Pkg.TypesInfo.Types[e]
				if !ok || tv.Value != nil || tv.Type == nil {
					return nil, false
				}
				if bt, ok := tv.Type.Underlying().(*types.Basic); ok && (bt.Kind() == types.Uint8 || bt.Kind() == types.Int32) {
					return constant.MakeInt64(int64(bb)), true
				}
				return nil, false
			}
			outs := map[string]bool{}
			env.evalBody(f, f.Decl.Body.List, outs, 0)
			if len(outs) == 1 && outs["false"] {
				filtered = append(filtered, fmt.Sprintf("%q (%s)", bb, need[bb]))
			}
		}
		if len(filtered) > 0 {
			r.Bad(rule, spec[1]+" | first byte", "the function answers false for every line that starts with "+strings.Join(filtered, ", ")+" whatever follows: such a directive right after a Description is taken for text", c.pos(f.Decl.Pos()))
		} else {
			r.Ok(rule, spec[1]+" | first byte", "no first byte of a keyword (nor 1-5) is enough to make the function answer false", c.pos(f.Decl.Pos()))
		}
		if len(sets) == 0 {
			r.Ok(rule, spec[1], "no first-byte pre-filter: every line is compared with the whole keyword table", c.pos(f.Decl.Pos()))
			continue
		}
		for i, s := range sets {
			var missing []string
			for b, w := range need {
				if !s.set[b] {
					missing = append(missing, fmt.Sprintf("%q (%s)", b, w))
				}
			}
			sort.Strings(missing)
			key := fmt.Sprintf("%s | byte set #%d", spec[1], i+1)
			if len(missing) == 0 {
				r.Ok(rule, key, "contains the first byte of every keyword and 1-5", c.pos(s.pos))
			} else {
				r.Bad(rule, key, "the pre-filter rejects lines starting with "+strings.Join(missing, ", ")+": such a directive right after a Description is taken for text", c.pos(s.pos))
			}
		}
	}
}

func returnsFalse(pk *packages.Package, list []ast.Stmt) bool {
	if len(list) == 0 {
		return false
	}
	ret, ok := list[len(list)-1].(*ast.ReturnStmt)
	if !ok || len(ret.Results) != 1 {
		return false
	}
	tv := pk.TypesInfo.Types[ret.Results[0]]
	return tv.Value != nil && tv.Value.String() == "false"
}

// ---------- a registry that is compared against is also entered ----------

// ruleSymmetricRegistry: some checks compare a directive with what the directives before it have left in a map of the
// core (similar paths, paths already used, ...) and then leave their own entry. The verdict "these two conflict" is
// independent of the order of the two blocks only if everyone who compares also enters. For every map field of the
// core and every handler of the dispatch table: reaching a lookup of the map without reaching a store into it, while
// another handler does both, is a one-directional check.
func (c *Ctx) ruleSymmetricRegistry(rule string) {
	r := c.R
	r.Rule(rule, "for every map field of core.JApiCore that some handler of the dispatch table both looks up and stores into (a check-and-register registry filled while the catalog is built): every handler that reaches a lookup of it also reaches a store into it (call graph of the library from the handler) - a handler that only compares makes the conflict between two blocks depend on which of them comes first", 1)
	disp := c.dispatchTable()
	tn := c.P.LookupType("core", "JApiCore")
	if len(disp) < 10 || tn == nil {
		r.Undecided(rule, "anchor", "dispatch table / core.JApiCore not found", "")
		return
	}
	st, ok := tn.Type().Underlying().(*types.Struct)
	if !ok {
		r.Undecided(rule, "anchor", "core.JApiCore is not a struct", "")
		return
	}
	var maps []*types.Var
	for i := 0; i < st.NumFields(); i++ {
		if _, isMap := st.Field(i).Type().Underlying().(*types.Map); isMap {
			maps = append(maps, st.Field(i))
		}
	}
	looks, stores := map[*types.Var]map[*types.Func]bool{}, map[*types.Var]map[*types.Func]bool{}
	for _, f := range c.libFns() {
		inspectWithStack(f.Decl.Body, func(nd ast.Node, stack []ast.Node) bool {
			ix, ok := nd.(*ast.IndexExpr)
			if !ok {
				return true
			}
			fv := fieldSel(f.Pkg, ix.X)
			if fv == nil {
				return true
			}
			isStore := false
			if len(stack) > 0 {
				if as, isAs := stack[len(stack)-1].(*ast.AssignStmt); isAs {
					for _, l := range as.Lhs {
						if l == ast.Expr(ix) {
							isStore = true
						}
					}
				}
			}
			m := looks
			if isStore {
				m = stores
			}
			if m[fv] == nil {
				m[fv] = map[*types.Func]bool{}
			}
			m[fv][f.Obj] = true
			return true
		})
	}
	var kinds []string
	for k := range disp {
		kinds = append(kinds, k)
	}
	sort.Strings(kinds)
	reach := map[*types.Func]map[*types.Func]bool{}
	for _, k := range kinds {
		h := disp[k]
		if reach[h] != nil {
			continue
		}
		reach[h] = map[*types.Func]bool{}
		if hf := c.fnOf(h); hf != nil {
			for _, g := range c.reachableAcrossLib(hf) {
				reach[h][g.Obj] = true
			}
		}
	}
	n := 0
	for _, m := range maps {
		if len(looks[m]) == 0 || len(stores[m]) == 0 {
			continue
		}
		var both, only []string
		seenH := map[*types.Func]bool{}
		for _, k := range kinds {
			h := disp[k]
			if seenH[h] {
				continue
			}
			seenH[h] = true
			l, s := false, false
			for g := range reach[h] {
				if looks[m][g] {
					l = true
				}
				if stores[m][g] {
					s = true
				}
			}
			if l && s {
				both = append(both, prog.FuncName(h))
			} else if l {
				only = append(only, prog.FuncName(h))
			}
		}
		if len(both) == 0 {
			continue
		}
		n++
		if len(only) == 0 {
			r.Ok(rule, "registry "+m.Name(), fmt.Sprintf("%d handlers compare with it and enter it", len(both)), "")
			continue
		}
		for _, h := range only {
			r.Bad(rule, "registry "+m.Name()+" | "+h, fmt.Sprintf("the handler looks %s up but never stores into it, while %v do both: a conflict between a block handled here and a block handled there is found only when this one comes second", m.Name(), both), c.pos(c.fnOf(disp[kindOfHandler(disp, h)]).Decl.Pos()))
		}
	}
	if n == 0 {
		r.Undecided(rule, "sites", "no check-and-register map found among the fields of core.JApiCore (similarPaths on the pinned tree)", "")
	}
}

func kindOfHandler(disp map[string]*types.Func, name string) string {
	var ks []string
	for k := range disp {
		ks = append(ks, k)
	}
	sort.Strings(ks)
	for _, k := range ks {
		if prog.FuncName(disp[k]) == name {
			return k
		}
	}
	return ""
}
