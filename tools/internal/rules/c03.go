package rules

import (
	"fmt"
	"go/ast"
	"go/token"
	"go/types"
	"golang.org/x/tools/go/ssa"
	"sort"
	"strings"

	"golang.org/x/tools/go/packages"

	"jsverif/internal/prog"
)

func init() { register("C03", propC03, false, false) }

func propC03(c *Ctx) {
	c.R.Explanation = "Decides the mechanisms behind 'a single fault is rejected at the fault': (a) every insertion into a name-keyed catalog collection and every single-valued slot is dominated by a pure presence test whose hit branch returns an error (closures passed to Update are tied to the value tested right before); (b) the uniqueness sets of the core are only inserted after their own lookup rejected a duplicate, are never reset, and no 'already there, skip' lookup short-cuts a declaration; (c) every fault-class message constant is still raised on a reachable path; (d) errors built in directive handlers are located on the handler's own directive; (e) no error result is dropped on the build path; (f) every handler uses or rejects the annotation; (g) JSIGHT-first is tested before anything is added. Not decided: that the right check fires first for every fault x layout combination, nor line equality (a PASTE relocates errors of its macro body to the PASTE line by design)."
	c.ruleHasBeforeSet()
	c.ruleUniqSets()
	c.ruleDeclaredNamesUnique()
	c.ruleNoSkipOnExists()
	c.ruleFaultClassLive()
	c.ruleErrReceiver()
	c.ruleNoDroppedError("C03-NO-DROPPED-ERROR")
	c.ruleAnnotationUseOrReject()
	c.ruleJsightFirst()
	// faults placed inside INCLUDEd files: the file that is read must be the one the INCLUDE names
	c.ruleC14ValidateFirst()
	c.ruleMemoCoverage("C03-MEMO-KEY-COVERS")
	// a fault in the Tags of a method must be seen although its URL has Tags too: the method's own directive is read first
	c.ruleTagPriority("C03-TAG-PRIORITY")
	// a duplicate ENUM declared inside macro bodies must reach the duplicate check: the rules of every pasted body
	// are collected, unconditionally
	c.ruleC10RulesWithBody()
	// a second Query / Body / Request pasted from the same macro stands at the coordinates of the first: a duplicate
	// test that asks "same place?" before it refuses lets the copy through
	c.ruleC10CopyIdentity()
	c.ruleEmptySentinel("C03-EMPTY-SENTINEL")
	// a check that walks a list must look at every element, and its verdict on one element must not be the verdict
	// on another
	c.ruleLoopsCoverAll("C03-LOOPS-COVER-ALL")
	c.ruleLoopFlags("C03-LOOP-FLAG")
	c.ruleEarlySuccess("C03-EARLY-SUCCESS")
	c.ruleDeadErrorStores("C03-DEAD-ERROR-STORE")
	c.ruleTypedNilError("C03-TYPED-NIL-ERROR")
	c.ruleSchemaErrorMessage("C03-SCHEMA-ERROR-MESSAGE")
	c.ruleDeclaredNameRequired("C03-DECLARED-NAME-REQUIRED")
	c.ruleCollectBeforeUse() // a reference to an undefined name must not resolve to something created on the way
	c.ruleKindVisitedAll("C03-KIND-VISITED-ALL")
	c.ruleErrorOnOwnDirective("C03-ERROR-ON-OWN-DIRECTIVE")
}

// orderedMapType: is t (pointer to) one of the generated ordered maps (struct with data map + order slice)?
func orderedMapType(t types.Type) bool {
	if p, ok := t.(*types.Pointer); ok {
		t = p.Elem()
	}
	st, ok := t.Underlying().(*types.Struct)
	if !ok {
		return false
	}
	d, o := false, false
	for i := 0; i < st.NumFields(); i++ {
		switch st.Field(i).Name() {
		case "data":
			d = true
		case "order":
			o = true
		}
	}
	return d && o
}

// presenceTests finds `if X.Has(k) {return err}`, `if _, ok := X.Get(k); ok {return ...}` and `if !X.Has(k)` (absence) tests.
type presenceTest struct {
	ifs      *ast.IfStmt
	recv     string
	key      string
	pure     bool // the condition is exactly the presence test (no extra conjunct)
	hitExits bool // the present-branch leaves the function
	hitError bool // ... with a non-nil error
}

func presenceTests(pk *packages.Package, body *ast.BlockStmt) []presenceTest {
	var out []presenceTest
	ast.Inspect(body, func(n ast.Node) bool {
		ifs, ok := n.(*ast.IfStmt)
		if !ok {
			return true
		}
		exits := func(list []ast.Stmt) (bool, bool) {
			if len(list) == 0 {
				return false, false
			}
			if _, isRet := list[len(list)-1].(*ast.ReturnStmt); isRet {
				return true, returnsNonNilError(pk, list)
			}
			return false, false
		}
		// Has(k) as the whole condition
		if call, ok := ast.Unparen(ifs.Cond).(*ast.CallExpr); ok && len(call.Args) == 1 {
			if cal := callee(pk, call); cal != nil && cal.Name() == "Has" {
				if sel, ok := ast.Unparen(call.Fun).(*ast.SelectorExpr); ok {
					ex, er := exits(ifs.Body.List)
					out = append(out, presenceTest{ifs, accessPath(pk, sel.X), accessPath(pk, call.Args[0]), true, ex, er})
				}
			}
		}
		// v, ok := X.Get(k); cond mentions ok
		if as, ok := ifs.Init.(*ast.AssignStmt); ok && len(as.Lhs) == 2 && len(as.Rhs) == 1 {
			if call, ok := ast.Unparen(as.Rhs[0]).(*ast.CallExpr); ok && len(call.Args) == 1 {
				if cal := callee(pk, call); cal != nil && cal.Name() == "Get" {
					if sel, ok := ast.Unparen(call.Fun).(*ast.SelectorExpr); ok {
						okObj := pk.TypesInfo.Defs[as.Lhs[1].(*ast.Ident)]
						pure := false
						if id, ok := ast.Unparen(ifs.Cond).(*ast.Ident); ok && pk.TypesInfo.Uses[id] == okObj {
							pure = true
						}
						mentions := false
						ast.Inspect(ifs.Cond, func(m ast.Node) bool {
							if id, ok := m.(*ast.Ident); ok && pk.TypesInfo.Uses[id] == okObj {
								mentions = true
							}
							return true
						})
						if mentions {
							ex, er := exits(ifs.Body.List)
							out = append(out, presenceTest{ifs, accessPath(pk, sel.X), accessPath(pk, call.Args[0]), pure, ex, er})
						}
					}
				}
			}
		}
		return true
	})
	return out
}

// hasBeforeSetExceptions: setters that deliberately have no uniqueness test.
var hasBeforeSetExceptions = map[string]string{
	"catalog.(*Catalog).AddResponse | append to Responses":        "several responses (also with the same code) are legal; nothing to be unique",
	"catalog.(*Catalog).AddRequest | slot Request":                "guarded by `if Request == nil` inside the closure: a Request with a child Body is handled twice for one request",
	"catalog.(*Catalog).AddResponseBody | slot Responses[i].Body": "sibling disagreement observed on the pinned tree: a second Body child of one response is accepted (last wins) while AddRequestBody and AddResponseHeaders refuse; 'a second response body' is not among the property's fault classes, reported as an observation",
}

func (c *Ctx) ruleHasBeforeSet() {
	r := c.R
	r.Rule("C03-HAS-BEFORE-SET", "in package catalog: every X.Set(k,v) on an ordered map is dominated by a PURE presence test of the same map and key whose present-branch leaves the function (with an error, or returning the existing entry for get-or-create); every assignment to a single-valued slot (Info, Title, Version, Description, Query, Request body/headers, response Headers, Params, Result, OperationId, BaseUrl, JSightVersion) is dominated by a test that the slot is empty whose other branch returns an error; a slot stored inside a closure passed to Interactions.Update(k, ...) is tied to the test made on GetValue(k) of the same key right before", 20)
	pk := c.P.Pkg("catalog")
	if pk == nil {
		r.Undecided("C03-HAS-BEFORE-SET", "anchor", "package catalog not loaded", "")
		return
	}
	for _, f := range c.libFns() {
		if f.Pkg != pk || strings.HasSuffix(pk.Fset.Position(f.Decl.Pos()).Filename, "_gen.go") {
			continue
		}
		sig := f.Obj.Type().(*types.Signature)
		if sig.Recv() == nil || namedType(sig.Recv().Type()) != prog.ModulePath+"/catalog.Catalog" {
			continue
		}
		cf := buildCFG(f.Decl.Body)
		tests := presenceTests(pk, f.Decl.Body)
		// (1) Set calls
		ast.Inspect(f.Decl.Body, func(n ast.Node) bool {
			call, ok := n.(*ast.CallExpr)
			if !ok || len(call.Args) != 2 {
				return true
			}
			cal := callee(pk, call)
			if cal == nil || (cal.Name() != "Set" && cal.Name() != "SetToTop") {
				return true
			}
			sel := call.Fun.(*ast.SelectorExpr)
			if !orderedMapType(pk.TypesInfo.TypeOf(sel.X)) {
				return true
			}
			recv, key := accessPath(pk, sel.X), accessPath(pk, call.Args[0])
			altKey := c.resolveThroughCtor(f, call.Args[0])
			okey := fmt.Sprintf("%s | %s.Set(%s)", f.Name(), exprString(sel.X), exprString(call.Args[0]))
			found, impure := guardedByPresenceTest(pk, cf, tests, call, recv, key, altKey)
			if found == "" && impure == "" {
				// the insertion sits in a helper and map and key are its receiver and parameter: the test is owed by
				// every caller, before the call
				found, impure = c.liftPresenceTest(f, sel.X, call.Args[0], 0)
			}
			switch {
			case found != "":
				r.Ok("C03-HAS-BEFORE-SET", okey, "dominated by a pure presence test: "+found, c.pos(call.Pos()))
			case impure != "":
				r.Bad("C03-HAS-BEFORE-SET", okey, "the presence test that guards this insertion has an extra condition (`"+impure+"`): when the key is present but the extra condition fails the existing entry is silently replaced", c.pos(call.Pos()))
			default:
				r.Bad("C03-HAS-BEFORE-SET", okey, "an entry is inserted without a dominating presence test of the same map and key: a duplicate name silently replaces the first declaration", c.pos(call.Pos()))
			}
			return true
		})
		// (2) slot assignments
		c.slotAssignments(f, cf)
	}
}

// guardedByPresenceTest: is `site` dominated by a pure presence test of map recv and key whose hit branch leaves?
func guardedByPresenceTest(pk *packages.Package, cf *funcCFG, tests []presenceTest, site ast.Node, recv, key, altKey string) (found, impure string) {
	for _, t := range tests {
		if t.recv != recv || (t.key != key && (altKey == "" || testKeyString(pk, t.ifs) != altKey)) || !cf.dominatedBy(site, t.ifs.Cond) {
			continue
		}
		if !t.hitExits {
			continue
		}
		if !t.pure {
			impure = exprString(t.ifs.Cond)
			continue
		}
		if t.hitError {
			found = "a present key returns an error"
		} else {
			found = "a present key returns the existing entry (get-or-create)"
		}
	}
	return found, impure
}

// liftPresenceTest: f is a helper that is only called inside the library; every call site must be dominated by the
// presence test of the map and key it hands to f.
func (c *Ctx) liftPresenceTest(f *Fn, mapExpr, keyExpr ast.Expr, depth int) (found, impure string) {
	if depth > 2 {
		return "", ""
	}
	sites, closed := c.callersOf(f)
	if !closed || len(sites) == 0 {
		return "", ""
	}
	for _, cs := range sites {
		recv, key := rebase(f, mapExpr, cs), rebase(f, keyExpr, cs)
		if recv == "" || key == "" {
			return "", ""
		}
		g := cs.g
		fd, imp := guardedByPresenceTest(g.Pkg, buildCFG(g.Decl.Body), presenceTests(g.Pkg, g.Decl.Body), cs.call, recv, key, "")
		if imp != "" {
			return "", imp
		}
		if fd == "" {
			return "", ""
		}
		found = fd + " (in every caller of the helper " + f.Obj.Name() + ")"
	}
	return found, ""
}

// testKeyString: the key expression of a presence test as source text.
func testKeyString(pk *packages.Package, ifs *ast.IfStmt) string {
	res := ""
	find := func(n ast.Node) {
		ast.Inspect(n, func(m ast.Node) bool {
			if call, ok := m.(*ast.CallExpr); ok && len(call.Args) == 1 {
				if cal := callee(pk, call); cal != nil && (cal.Name() == "Has" || cal.Name() == "Get") {
					res = exprString(call.Args[0])
				}
			}
			return true
		})
	}
	if ifs.Init != nil {
		find(ifs.Init)
	}
	find(ifs.Cond)
	return res
}

// resolveThroughCtor: for a key of the form v.F where v := Ctor(a1..an) and Ctor is `return &T{..., F: e(params), ...}`,
// returns e with the parameters replaced by the argument expressions (as source text), "" otherwise.
func (c *Ctx) resolveThroughCtor(f *Fn, key ast.Expr) string {
	pk := f.Pkg
	sel, ok := ast.Unparen(key).(*ast.SelectorExpr)
	if !ok || fieldSel(pk, sel) == nil {
		return ""
	}
	id, ok := ast.Unparen(sel.X).(*ast.Ident)
	if !ok {
		return ""
	}
	obj := pk.TypesInfo.Uses[id]
	var ctorCall *ast.CallExpr
	nDef := 0
	ast.Inspect(f.Decl.Body, func(n ast.Node) bool {
		if as, ok := n.(*ast.AssignStmt); ok {
			for i, l := range as.Lhs {
				if lid, ok := l.(*ast.Ident); ok && (pk.TypesInfo.Defs[lid] == obj || pk.TypesInfo.Uses[lid] == obj) {
					nDef++
					if i < len(as.Rhs) {
						ctorCall, _ = ast.Unparen(as.Rhs[i]).(*ast.CallExpr)
					}
				}
			}
		}
		return true
	})
	if nDef != 1 || ctorCall == nil {
		return ""
	}
	ctor := c.fnOf(callee(pk, ctorCall))
	if ctor == nil || len(ctor.Decl.Body.List) != 1 {
		return ""
	}
	ret, ok := ctor.Decl.Body.List[0].(*ast.ReturnStmt)
	if !ok || len(ret.Results) != 1 {
		return ""
	}
	var cl *ast.CompositeLit
	switch x := ast.Unparen(ret.Results[0]).(type) {
	case *ast.UnaryExpr:
		cl, _ = x.X.(*ast.CompositeLit)
	case *ast.CompositeLit:
		cl = x
	}
	if cl == nil {
		return ""
	}
	var fieldExpr ast.Expr
	for _, el := range cl.Elts {
		if kv, ok := el.(*ast.KeyValueExpr); ok {
			if kid, ok := kv.Key.(*ast.Ident); ok && kid.Name == sel.Sel.Name {
				fieldExpr = kv.Value
			}
		}
	}
	if fieldExpr == nil {
		return ""
	}
	// substitute parameters by arguments (textually, identifiers only)
	subst := map[string]string{}
	i := 0
	for _, fl := range ctor.Decl.Type.Params.List {
		for _, n := range fl.Names {
			if i < len(ctorCall.Args) {
				subst[n.Name] = exprString(ctorCall.Args[i])
			}
			i++
		}
	}
	var render func(e ast.Expr) string
	render = func(e ast.Expr) string {
		switch x := ast.Unparen(e).(type) {
		case *ast.Ident:
			if s, ok := subst[x.Name]; ok {
				if _, isVar := ctor.Pkg.TypesInfo.Uses[x].(*types.Var); isVar {
					return s
				}
			}
			return x.Name
		case *ast.CallExpr:
			var as []string
			for _, a := range x.Args {
				as = append(as, render(a))
			}
			return render(x.Fun) + "(" + strings.Join(as, ", ") + ")"
		case *ast.SelectorExpr:
			return render(x.X) + "." + x.Sel.Name
		}
		return exprString(e)
	}
	return render(fieldExpr)
}

var slotFields = map[string]bool{"Info": true, "Title": true, "Version": true, "Description": true, "Query": true, "HTTPRequestBody": true,
	"HTTPRequestHeaders": true, "Headers": true, "Params": true, "Result": true, "OperationId": true, "BaseUrl": true, "JSightVersion": true,
	"Body": true, "Request": true}

// slotAssignments checks `x.F = v` for single-valued slots in a Catalog setter.
func (c *Ctx) slotAssignments(f *Fn, cf *funcCFG) {
	r := c.R
	pk := f.Pkg
	inspectWithStack(f.Decl.Body, func(n ast.Node, stack []ast.Node) bool {
		as, ok := n.(*ast.AssignStmt)
		if !ok || len(as.Lhs) != 1 || as.Tok != token.ASSIGN {
			return true
		}
		fld := fieldSel(pk, as.Lhs[0])
		if fld == nil || !slotFields[fld.Name()] || !c.P.IsLibPkg(fld.Pkg()) {
			return true
		}
		// local struct being built (literal variable) is not a catalog slot
		sel := as.Lhs[0].(*ast.SelectorExpr)
		okey := fmt.Sprintf("%s | slot %s", f.Name(), slotName(sel))
		if why, ok := hasBeforeSetExceptions[okey]; ok {
			r.Ok("C03-HAS-BEFORE-SET", okey, "named exception: "+why, c.pos(as.Pos()))
			r.Except(okey, why)
			if strings.Contains(why, "sibling disagreement") {
				r.Observe("C03-HAS-BEFORE-SET", okey+" (observation)", why, c.pos(as.Pos()))
			}
			return true
		}
		// inside an Update closure?
		var upd *ast.CallExpr
		for i := len(stack) - 1; i >= 1; i-- {
			if _, isLit := stack[i].(*ast.FuncLit); isLit {
				if call, ok := stack[i-1].(*ast.CallExpr); ok {
					if cal := callee(pk, call); cal != nil && cal.Name() == "Update" {
						upd = call
					}
				}
				break
			}
		}
		emptyTest := func(site ast.Node, holderOK func(base ast.Expr) bool) string {
			res := ""
			ast.Inspect(f.Decl.Body, func(m ast.Node) bool {
				ifs, ok := m.(*ast.IfStmt)
				if !ok || res != "" || len(ifs.Body.List) == 0 {
					return res == ""
				}
				be, ok := ast.Unparen(ifs.Cond).(*ast.BinaryExpr)
				if !ok || be.Op != token.NEQ {
					return true
				}
				tf := fieldSel(pk, be.X)
				if tf == nil || tf.Origin() != fld.Origin() {
					return true
				}
				zero := isNil(pk, be.Y)
				if s, isStr := constString(pk, be.Y); isStr && s == "" {
					zero = true
				}
				if !zero || !returnsNonNilError(pk, ifs.Body.List) || !holderOK(be.X.(*ast.SelectorExpr).X) {
					return true
				}
				if cf.dominatedBy(site, ifs.Cond) {
					res = exprString(ifs.Cond)
				}
				return true
			})
			if res != "" {
				return res
			}
			// the inverted form: `if F == zero { F = v; return nil }; return error` - the store stands on the edge on
			// which the slot was found empty, and the function refuses on another path
			zeroTest := func(e ast.Expr) (ast.Expr, token.Token, bool) {
				be, ok := ast.Unparen(e).(*ast.BinaryExpr)
				if !ok || (be.Op != token.NEQ && be.Op != token.EQL) {
					return nil, 0, false
				}
				tf := fieldSel(pk, be.X)
				if tf == nil || tf.Origin() != fld.Origin() {
					return nil, 0, false
				}
				zero := isNil(pk, be.Y)
				if s, isStr := constString(pk, be.Y); isStr && s == "" {
					zero = true
				}
				if !zero || !holderOK(be.X.(*ast.SelectorExpr).X) {
					return nil, 0, false
				}
				return be, be.Op, true
			}
			found := ""
			established := cf.establishedAt(site, func(cond ast.Expr, trueEdge bool) bool {
				for _, a := range impliedAtoms(cond, trueEdge) {
					if e, op, ok := zeroTest(a.e); ok && ((op == token.EQL && a.holds) || (op == token.NEQ && !a.holds)) {
						found = exprString(e)
						return true
					}
				}
				return false
			}, nil)
			refuses := false
			ast.Inspect(f.Decl.Body, func(m ast.Node) bool {
				if ret, ok := m.(*ast.ReturnStmt); ok && returnsNonNilError(pk, []ast.Stmt{ret}) {
					refuses = true
				}
				return true
			})
			if established && refuses && found != "" {
				return found + " (on the edge that leads to the store; the other path returns an error)"
			}
			return res
		}
		if upd != nil {
			// the tested holder must be w := X.GetValue(k).(T) with the same X and k as the Update
			recv := accessPath(pk, upd.Fun.(*ast.SelectorExpr).X)
			kPath := accessPath(pk, upd.Args[0])
			holder := func(base ast.Expr) bool {
				root := base
				for {
					if s, ok := ast.Unparen(root).(*ast.SelectorExpr); ok && fieldSel(pk, s) != nil {
						root = s.X
						continue
					}
					if ix, ok := ast.Unparen(root).(*ast.IndexExpr); ok {
						root = ix.X
						continue
					}
					break
				}
				id, ok := ast.Unparen(root).(*ast.Ident)
				if !ok {
					return false
				}
				obj := pk.TypesInfo.Uses[id]
				okDef := false
				ast.Inspect(f.Decl.Body, func(m ast.Node) bool {
					a2, ok := m.(*ast.AssignStmt)
					if !ok || len(a2.Lhs) < 1 || len(a2.Rhs) != 1 {
						return true
					}
					if lid, ok := a2.Lhs[0].(*ast.Ident); !ok || pk.TypesInfo.Defs[lid] != obj {
						return true
					}
					src := ast.Unparen(a2.Rhs[0])
					if ta, ok := src.(*ast.TypeAssertExpr); ok {
						src = ast.Unparen(ta.X)
					}
					if gc, ok := src.(*ast.CallExpr); ok && len(gc.Args) == 1 {
						if cal := callee(pk, gc); cal != nil && (cal.Name() == "GetValue" || cal.Name() == "Get") && accessPath(pk, gc.Fun.(*ast.SelectorExpr).X) == recv && accessPath(pk, gc.Args[0]) == kPath {
							okDef = true
						}
					}
					return true
				})
				return okDef
			}
			if g := emptyTest(upd, holder); g != "" {
				r.Ok("C03-HAS-BEFORE-SET", okey, "stored inside Update(k, closure); `if "+g+" { return error }` on GetValue(k) of the same map and key dominates the Update", c.pos(as.Pos()))
			} else if ok, _ := c.slotGuardedE8(f, fld.Name()); ok {
				r.Ok("C03-HAS-BEFORE-SET", okey, "by abstract evaluation (helpers inlined): every successful path that stores into the slot has found that very location empty before", c.pos(as.Pos()))
			} else {
				r.Bad("C03-HAS-BEFORE-SET", okey, "a single-valued slot is overwritten inside Update(k, ...) without a dominating 'already set' test on the value of the same key: a second directive of this kind silently replaces the first", c.pos(as.Pos()))
			}
			return true
		}
		// direct slot: holder must be the same access path
		holderPath := accessPath(pk, sel.X)
		if g := emptyTest(as, func(base ast.Expr) bool { return accessPath(pk, base) == holderPath }); g != "" {
			r.Ok("C03-HAS-BEFORE-SET", okey, "dominated by `if "+g+" { return error }`", c.pos(as.Pos()))
			return true
		}
		// a local value under construction (x := T{...}; x.F = ...) is not a catalog slot
		if id, ok := ast.Unparen(sel.X).(*ast.Ident); ok {
			if obj := pk.TypesInfo.Uses[id]; obj != nil && obj.Pos() >= f.Decl.Body.Pos() && obj.Pos() <= f.Decl.Body.End() {
				if _, isPtrRecv := obj.Type().(*types.Pointer); !isPtrRecv || definedByLiteralOrNew(pk, f.Decl.Body, obj) {
					r.OkTrivial("C03-HAS-BEFORE-SET", okey, "field of a local value under construction", c.pos(as.Pos()))
					return true
				}
			}
		}
		r.Bad("C03-HAS-BEFORE-SET", okey, "a single-valued slot is assigned without a dominating test that it is still empty (other branch returning an error): a repeated directive silently overwrites it", c.pos(as.Pos()))
		return true
	})
}

func definedByLiteralOrNew(pk *packages.Package, body *ast.BlockStmt, obj types.Object) bool {
	res := false
	ast.Inspect(body, func(n ast.Node) bool {
		as, ok := n.(*ast.AssignStmt)
		if !ok {
			return true
		}
		for i, l := range as.Lhs {
			if id, ok := l.(*ast.Ident); ok && pk.TypesInfo.Defs[id] == obj && i < len(as.Rhs) {
				switch x := ast.Unparen(as.Rhs[i]).(type) {
				case *ast.UnaryExpr:
					if _, ok := x.X.(*ast.CompositeLit); ok {
						res = true
					}
				case *ast.CompositeLit:
					res = true
				case *ast.CallExpr:
					if id, ok := x.Fun.(*ast.Ident); ok && id.Name == "new" {
						res = true
					}
				}
			}
		}
		return true
	})
	return res
}

func slotName(sel *ast.SelectorExpr) string {
	s := exprString(sel)
	// drop the variable/assertion prefix: keep the field chain after the last ')' or the first '.'
	if i := strings.LastIndex(s, ")"); i >= 0 && i+2 <= len(s) {
		return strings.TrimPrefix(s[i+1:], ".")
	}
	if i := strings.Index(s, "."); i >= 0 {
		return s[i+1:]
	}
	return s
}

// ---------- uniqueness sets of the core ----------

func (c *Ctx) ruleUniqSets() {
	r := c.R
	r.Rule("C03-UNIQ-SETS", "map fields of core.JApiCore that have a lookup whose hit branch returns an error (uniqURLPath, uniqOperationID, onlyOneProtocolIntoURL, macro): every insertion is dominated by such a lookup of the same key; no delete, no clear, no re-make outside NewJApiCore", 4)
	tn := c.P.LookupType("core", "JApiCore")
	if tn == nil {
		r.Undecided("C03-UNIQ-SETS", "anchor", "core.JApiCore not found", "")
		return
	}
	st := tn.Type().Underlying().(*types.Struct)
	mapFields := map[*types.Var]bool{}
	for i := 0; i < st.NumFields(); i++ {
		if _, ok := st.Field(i).Type().Underlying().(*types.Map); ok {
			mapFields[st.Field(i)] = true
		}
	}
	type lookup struct {
		ifs *ast.IfStmt
		key string
		f   *Fn
	}
	rejecting := map[*types.Var][]lookup{}
	corePk := c.P.Pkg("core")
	var fns []*Fn
	for _, f := range c.libFns() {
		if f.Pkg == corePk {
			fns = append(fns, f)
		}
	}
	for _, f := range fns {
		ast.Inspect(f.Decl.Body, func(n ast.Node) bool {
			ifs, ok := n.(*ast.IfStmt)
			if !ok {
				return true
			}
			as, ok := ifs.Init.(*ast.AssignStmt)
			if !ok || len(as.Lhs) != 2 || len(as.Rhs) != 1 {
				return true
			}
			b, k, isIdx := indexOn(corePk, as.Rhs[0])
			if !isIdx {
				return true
			}
			fld := fieldSel(corePk, b)
			if fld == nil || !mapFields[fld] {
				return true
			}
			if id, ok := ast.Unparen(ifs.Cond).(*ast.Ident); ok && corePk.TypesInfo.Uses[id] == corePk.TypesInfo.Defs[as.Lhs[1].(*ast.Ident)] && returnsNonNilError(corePk, ifs.Body.List) {
				rejecting[fld] = append(rejecting[fld], lookup{ifs, accessPath(corePk, k), f})
			}
			return true
		})
	}
	var names []string
	byName := map[string]*types.Var{}
	for fld, lks := range rejecting {
		// a uniqueness set is inserted into by a function that also holds the rejecting lookup
		inserts := false
		for _, lk := range lks {
			ast.Inspect(lk.f.Decl.Body, func(n ast.Node) bool {
				if as, ok := n.(*ast.AssignStmt); ok {
					for _, l := range as.Lhs {
						if b, _, ok := indexOn(corePk, l); ok && fieldSel(corePk, b) == fld {
							inserts = true
						}
					}
				}
				return true
			})
		}
		if !inserts {
			continue
		}
		names = append(names, fld.Name())
		byName[fld.Name()] = fld
	}
	sort.Strings(names)
	if len(names) < 3 {
		r.Undecided("C03-UNIQ-SETS", "sets", fmt.Sprintf("only %d uniqueness sets recognised (%v)", len(names), names), "")
	}
	for _, name := range names {
		fld := byName[name]
		for _, f := range fns {
			cf := buildCFG(f.Decl.Body)
			ast.Inspect(f.Decl.Body, func(n ast.Node) bool {
				switch x := n.(type) {
				case *ast.AssignStmt:
					for i, l := range x.Lhs {
						if b, k, ok := indexOn(corePk, l); ok && fieldSel(corePk, b) == fld {
							key := fmt.Sprintf("%s | %s[%s] = ...", f.Name(), name, exprString(k))
							okk := false
							for _, lk := range rejecting[fld] {
								if lk.f == f && lk.key == accessPath(corePk, k) && cf.dominatedBy(x, lk.ifs.Init) {
									okk = true
								}
							}
							if okk {
								r.Ok("C03-UNIQ-SETS", key, "dominated by the lookup of the same key that returns an error on a hit", c.pos(x.Pos()))
							} else {
								r.Bad("C03-UNIQ-SETS", key, "a name is recorded in a uniqueness set without the duplicate test on the same key in front of it", c.pos(x.Pos()))
							}
						}
						if fieldSel(corePk, l) == fld && f.Obj.Name() != "NewJApiCore" {
							_ = i
							r.Bad("C03-UNIQ-SETS", fmt.Sprintf("%s | %s reassigned", f.Name(), name), "a uniqueness set is replaced after construction: names recorded so far are forgotten", c.pos(x.Pos()))
						}
					}
				case *ast.CallExpr:
					if id, ok := x.Fun.(*ast.Ident); ok && (id.Name == "delete" || id.Name == "clear") && len(x.Args) >= 1 && fieldSel(corePk, x.Args[0]) == fld {
						r.Bad("C03-UNIQ-SETS", fmt.Sprintf("%s | %s(%s)", f.Name(), id.Name, name), "entries are removed from a uniqueness set", c.pos(x.Pos()))
					}
				}
				return true
			})
		}
	}
}

// skipMemoSets: lookups whose hit legitimately skips work (memo / visited sets), by field or variable name.
var skipMemoSets = map[string]string{
	"processedUserTypes": "memo of user types whose dependencies are already compiled (visited set of the recursive compile)",
	"alreadyProcessed":   "visited set of the used-user-types fetcher",
	"state":              "three-colour state of the macro recursion check (C10-CYCLE-REJECTED)",
	"seen":               "de-duplication of the names inside one Tags directive",
	"sortedResponses":    "grouping of responses by code in the OpenAPI converter",
}

func (c *Ctx) ruleNoSkipOnExists() {
	r := c.R
	r.Rule("C03-NO-SKIP-ON-EXISTS", "a comma-ok lookup in a map (or Has/Get of an ordered map) whose HIT branch silently skips (continue / return nil / return without error) is only allowed on the named memo/visited sets; on a declaration table it hides a duplicate declaration from the check that would reject it", 3)
	n := 0
	for _, f := range c.libFns() {
		pk := f.Pkg
		if strings.HasSuffix(pk.Fset.Position(f.Decl.Pos()).Filename, "_gen.go") {
			continue
		}
		ast.Inspect(f.Decl.Body, func(nd ast.Node) bool {
			ifs, ok := nd.(*ast.IfStmt)
			if !ok || len(ifs.Body.List) == 0 {
				return true
			}
			as, ok := ifs.Init.(*ast.AssignStmt)
			if !ok || len(as.Lhs) != 2 || len(as.Rhs) != 1 {
				return true
			}
			b, _, isIdx := indexOn(pk, as.Rhs[0])
			if !isIdx {
				return true
			}
			okId, _ := as.Lhs[1].(*ast.Ident)
			cid, _ := ast.Unparen(ifs.Cond).(*ast.Ident)
			if okId == nil || cid == nil || pk.TypesInfo.Uses[cid] != pk.TypesInfo.Defs[okId] {
				return true
			}
			if vid, ok := as.Lhs[0].(*ast.Ident); !ok || vid.Name != "_" {
				return true // the value is used: a real lookup, not an existence test
			}
			skips := false
			switch last := ifs.Body.List[len(ifs.Body.List)-1].(type) {
			case *ast.BranchStmt:
				skips = last.Tok == token.CONTINUE
			case *ast.ReturnStmt:
				skips = true
				for _, e := range last.Results {
					if !isNil(pk, e) {
						skips = false // returns a value: a finder, not a skip
					}
				}
			}
			if !skips || len(ifs.Body.List) != 1 {
				return true
			}
			n++
			name := exprString(b)
			short := name
			if i := strings.LastIndex(short, "."); i >= 0 {
				short = short[i+1:]
			}
			key := fmt.Sprintf("%s | skip when %s has the key", f.Name(), name)
			if why, ok := skipMemoSets[short]; ok {
				r.Ok("C03-NO-SKIP-ON-EXISTS", key, "named memo set: "+why, c.pos(ifs.Pos()))
			} else if c.mapIsCallLocal(f, b, map[types.Object]bool{}) {
				r.Ok("C03-NO-SKIP-ON-EXISTS", key, "a map made for this call (a local made in the function, or a parameter that every caller fills with such a local): a visited set of one walk, not a table of declarations", c.pos(ifs.Pos()))
			} else {
				r.Bad("C03-NO-SKIP-ON-EXISTS", key, "an 'already there, skip' test on a table that is not a known memo set: a second declaration of the same name is skipped before the duplicate check can reject it", c.pos(ifs.Pos()))
			}
			return true
		})
	}
	if n == 0 {
		r.Undecided("C03-NO-SKIP-ON-EXISTS", "sites", "no skip-on-hit lookup found at all (the memo sets used to match)", "")
	}
	// the same in any form: a function that declares into a table (stores into it itself or through the functions it
	// calls) must not leave silently (return nil / continue) on a path on which a presence test of that very table has
	// hit -- whether or not it looks at the stored value first. Edge facts, so if/else, early return, nested ifs and
	// comma-ok variables tested later all count.
	for _, f := range c.libFns() {
		pk := f.Pkg
		if strings.HasSuffix(pk.Fset.Position(f.Decl.Pos()).Filename, "_gen.go") {
			continue
		}
		// tables tested in f: field -> the comma-ok variables of its lookups
		type tbl struct {
			fld    *types.Var
			okVars map[types.Object]bool
		}
		tables := map[*types.Var]*tbl{}
		get := func(fld *types.Var) *tbl {
			if tables[fld] == nil {
				tables[fld] = &tbl{fld: fld, okVars: map[types.Object]bool{}}
			}
			return tables[fld]
		}
		tableOf := func(e ast.Expr) *types.Var {
			fld := fieldSel(pk, e)
			if fld == nil || fld.Pkg() == nil || !c.P.IsLibPkg(fld.Pkg()) {
				return nil
			}
			if _, isMap := fld.Type().Underlying().(*types.Map); !isMap && !orderedMapType(fld.Type()) {
				return nil
			}
			if _, memo := skipMemoSets[fld.Name()]; memo {
				return nil
			}
			return fld.Origin()
		}
		ast.Inspect(f.Decl.Body, func(nd ast.Node) bool {
			switch x := nd.(type) {
			case *ast.AssignStmt:
				if len(x.Lhs) == 2 && len(x.Rhs) == 1 {
					var t *types.Var
					if b, _, isIdx := indexOn(pk, x.Rhs[0]); isIdx {
						t = tableOf(b)
					} else if call, isCall := ast.Unparen(x.Rhs[0]).(*ast.CallExpr); isCall {
						if cal := callee(pk, call); cal != nil && cal.Name() == "Get" {
							if sel, ok := ast.Unparen(call.Fun).(*ast.SelectorExpr); ok {
								t = tableOf(sel.X)
							}
						}
					}
					if t != nil {
						if id, ok := x.Lhs[1].(*ast.Ident); ok && id.Name != "_" {
							if o := objOf(pk, id); o != nil {
								get(t).okVars[o] = true
							}
						}
					}
				}
			case *ast.CallExpr:
				if cal := callee(pk, x); cal != nil && cal.Name() == "Has" {
					if sel, ok := ast.Unparen(x.Fun).(*ast.SelectorExpr); ok {
						if t := tableOf(sel.X); t != nil {
							get(t)
						}
					}
				}
			}
			return true
		})
		if len(tables) == 0 {
			continue
		}
		cf := c.cfgOf(f)
		for _, t := range tables {
			if !c.insertsInto(f, t.fld, 0, map[*types.Func]bool{}) {
				continue
			}
			t := t
			hit := func(cond ast.Expr, holds bool) bool {
				if !holds {
					return false
				}
				if id, ok := ast.Unparen(cond).(*ast.Ident); ok {
					return t.okVars[pk.TypesInfo.Uses[id]]
				}
				if call, ok := ast.Unparen(cond).(*ast.CallExpr); ok {
					if cal := callee(pk, call); cal != nil && cal.Name() == "Has" {
						if sel, ok := ast.Unparen(call.Fun).(*ast.SelectorExpr); ok {
							return tableOf(sel.X) == t.fld
						}
					}
				}
				return false
			}
			ast.Inspect(f.Decl.Body, func(nd ast.Node) bool {
				if _, isLit := nd.(*ast.FuncLit); isLit {
					return false
				}
				silent := false
				switch x := nd.(type) {
				case *ast.ReturnStmt:
					silent = len(x.Results) > 0
					for _, e := range x.Results {
						if !isNil(pk, e) {
							silent = false
						}
					}
				case *ast.BranchStmt:
					silent = x.Tok == token.CONTINUE
				}
				if !silent || !cf.establishedAt(nd, hit, nil) {
					return true
				}
				n++
				key := fmt.Sprintf("%s | silent exit when %s has the key", f.Name(), t.fld.Name())
				r.Bad("C03-NO-SKIP-ON-EXISTS", key, "the function declares into "+t.fld.Name()+" and leaves without an error on a path on which the name was found to be there already: a second declaration of the name is accepted", c.pos(nd.Pos()))
				return true
			})
		}
	}
}

// insertsInto: f stores into the table field (index store or Set/SetToTop on it), itself or through library functions
// it calls (two levels).
func (c *Ctx) insertsInto(f *Fn, fld *types.Var, depth int, seen map[*types.Func]bool) bool {
	if f == nil || f.Decl.Body == nil || seen[f.Obj] {
		return false
	}
	seen[f.Obj] = true
	pk := f.Pkg
	found := false
	var callees []*types.Func
	ast.Inspect(f.Decl.Body, func(nd ast.Node) bool {
		switch x := nd.(type) {
		case *ast.AssignStmt:
			for _, l := range x.Lhs {
				if b, _, ok := indexOn(pk, l); ok {
					if fs := fieldSel(pk, b); fs != nil && fs.Origin() == fld {
						found = true
					}
				}
			}
		case *ast.CallExpr:
			cal := callee(pk, x)
			if cal == nil {
				return true
			}
			if sel, ok := ast.Unparen(x.Fun).(*ast.SelectorExpr); ok && (cal.Name() == "Set" || cal.Name() == "SetToTop") {
				if fs := fieldSel(pk, sel.X); fs != nil && fs.Origin() == fld {
					found = true
				}
			}
			if cal.Pkg() != nil && c.P.IsLibPkg(cal.Pkg()) {
				callees = append(callees, cal)
			}
		}
		return !found
	})
	if found {
		return true
	}
	if depth < 2 {
		for _, g := range callees {
			if c.insertsInto(c.fnOf(g), fld, depth+1, seen) {
				return true
			}
		}
	}
	return false
}

// mapIsCallLocal: the map expression is a local variable initialised by make / a composite literal in f, or a
// parameter of f for which every call site in the library passes such a map (or the caller's own such parameter).
func (c *Ctx) mapIsCallLocal(f *Fn, e ast.Expr, visiting map[types.Object]bool) bool {
	switch x := ast.Unparen(e).(type) {
	case *ast.CompositeLit:
		return true
	case *ast.CallExpr:
		if fid, isF := x.Fun.(*ast.Ident); isF && fid.Name == "make" {
			return true
		}
		return false
	}
	id, ok := ast.Unparen(e).(*ast.Ident)
	if !ok {
		return false
	}
	pk := f.Pkg
	obj := pk.TypesInfo.Uses[id]
	if obj == nil {
		return false
	}
	if idx := paramIndexOf(f, id); idx >= 0 {
		if visiting[obj] {
			return true // a cycle of calls that only hands the parameter on
		}
		visiting[obj] = true
		if paramAssigned(f, id) {
			return false
		}
		sites, closed := c.callersOf(f)
		if !closed || len(sites) == 0 {
			return false
		}
		for _, cs := range sites {
			arg := argFor(cs, idx)
			if arg == nil || !c.mapIsCallLocal(cs.g, arg, visiting) {
				return false
			}
		}
		return true
	}
	if v, isVar := obj.(*types.Var); !isVar || v.IsField() || v.Parent() == nil || v.Parent() == v.Pkg().Scope() {
		return false
	}
	// a local: every assignment to it is make(...) or a composite literal
	n, fresh := 0, true
	ast.Inspect(f.Decl.Body, func(nd ast.Node) bool {
		as, isAs := nd.(*ast.AssignStmt)
		if !isAs {
			return true
		}
		for i, l := range as.Lhs {
			lid, isId := ast.Unparen(l).(*ast.Ident)
			if !isId || (pk.TypesInfo.Defs[lid] != obj && pk.TypesInfo.Uses[lid] != obj) {
				continue
			}
			n++
			if i >= len(as.Rhs) {
				fresh = false
				continue
			}
			switch r := ast.Unparen(as.Rhs[i]).(type) {
			case *ast.CompositeLit:
			case *ast.CallExpr:
				if fid, isF := r.Fun.(*ast.Ident); !isF || fid.Name != "make" {
					fresh = false
				}
			default:
				fresh = false
			}
		}
		return true
	})
	return n > 0 && fresh
}

// ---------- fault classes ----------

// faultClassConstants: the jerr constants that name a fault class of the property (raised on the pinned tree).
var faultClassConstants = []string{
	"DuplicateNames", "NotUniqueDirective", "NotUniquePath", "NotUniqueOperationID", "MethodIsAlreadyDefinedInResource",
	"PathsAreSimilar", "PathParameterIsDuplicatedInThePath", "PathParameterAlreadyDefined", "PathEmptyParameter",
	"TagNotFound", "MacroNotFound", "UserTypeNotFound",
	"RequiredParameterNotSpecified", "BodyIsEmpty", "DescriptionIsEmpty", "MacroIsEmpty", "InfoIsEmpty", "UndefinedRequestBodyForResource",
	"AnnotationIsForbiddenForTheDirective", "ParametersAreForbiddenForTheDirective", "ParametersIsAlreadyDefined",
	"DirectiveJSIGHTShouldBeTheFirst", "DirectiveJSIGHTGottaBeOnlyOneTime", "DirectiveINFOGottaBeOnlyOneTime", "DirectiveBaseURLAlreadyDefined",
	"UnsupportedVersion", "IncorrectDirectiveContext", "RecursionIsProhibited", "BodyMustBeObject", "IncorrectPath", "ProtocolNotFound",
	"CannotUseTheTypeAndSchemaNotationParametersTogether", "UnknownDirective", "DirectiveNotAllowed",
}

func (c *Ctx) ruleFaultClassLive() {
	r := c.R
	r.Rule("C03-FAULT-CLASS-LIVE", "every jerr message constant that names a fault class is referenced inside a return statement (directly or as an argument of the error constructor) of a function reachable from BuildCatalog; deleting a check deletes the last use", 30)
	jp := c.P.Pkg("jerr")
	if jp == nil {
		r.Undecided("C03-FAULT-CLASS-LIVE", "anchor", "package jerr not loaded", "")
		return
	}
	reach := reachDecls(c.reachableLib(c.ssaRoots(buildRoots...), nil))
	used := map[string]string{}
	for _, f := range c.libFns() {
		if !reach[f.Obj] {
			continue
		}
		pk := f.Pkg
		ast.Inspect(f.Decl.Body, func(n ast.Node) bool {
			ret, ok := n.(*ast.ReturnStmt)
			if !ok {
				// also `err = errors.New(jerr.X)` assignments that are returned later
				if as, isAs := n.(*ast.AssignStmt); isAs {
					for _, rh := range as.Rhs {
						ast.Inspect(rh, func(m ast.Node) bool {
							if sel, ok := m.(*ast.SelectorExpr); ok {
								if k, ok := pk.TypesInfo.Uses[sel.Sel].(*types.Const); ok && k.Pkg() == jp.Types {
									if _, seen := used[k.Name()]; !seen {
										used[k.Name()] = f.Name() + " (assigned)"
									}
								}
							}
							return true
						})
					}
				}
				return true
			}
			ast.Inspect(ret, func(m ast.Node) bool {
				switch x := m.(type) {
				case *ast.SelectorExpr:
					if k, ok := pk.TypesInfo.Uses[x.Sel].(*types.Const); ok && k.Pkg() == jp.Types {
						used[k.Name()] = f.Name()
					}
				case *ast.Ident:
					if k, ok := pk.TypesInfo.Uses[x].(*types.Const); ok && k.Pkg() == jp.Types {
						used[k.Name()] = f.Name()
					}
				}
				return true
			})
			return true
		})
	}
	for _, name := range faultClassConstants {
		if _, ok := jp.Types.Scope().Lookup(name).(*types.Const); !ok {
			r.Bad("C03-FAULT-CLASS-LIVE", "constant "+name, "the message constant of this fault class no longer exists", "")
			continue
		}
		if where, ok := used[name]; ok {
			r.Ok("C03-FAULT-CLASS-LIVE", "constant "+name, "raised in "+where, "")
		} else {
			r.Bad("C03-FAULT-CLASS-LIVE", "constant "+name, "no reachable function returns an error with this message any more: the check for this fault class was removed or became unreachable", "")
		}
	}
}

// ---------- error receiver ----------

var errReceiverExceptions = map[string]string{
	"core.(*JApiCore).addBody":                 "ParametersAreForbidden is reported on the parent (the Request/response that carries the parameters): documented intent",
	"core.checkJsonRpcUrlChildCompatible":      "the error is reported on the offending child directive",
	"core.(*JApiCore).processDirective":        "an error raised while a macro body is pasted is relocated to the PASTE directive that caused it (by design of the expansion; the error inside the macro keeps its message)",
	"core.(*JApiCore).findPaste":               "walks the macro body: errors are located on the PASTE child it examines",
	"core.(*JApiCore).checkUserType":           "the error is located on the raw user type named by the schema error",
	"core.jschemaToJAPIError":                  "converter: locates on the directive it is given",
	"core.(*JApiCore).processContext":          "located on the incoming directive d (first parameter)",
	"catalog.(*Catalog).tagsFromTagsDirective": "located on the Tags directive it was given",
}

func (c *Ctx) ruleErrReceiver() {
	r := c.R
	r.Rule("C03-ERR-RECEIVER", "in package core, every function with exactly one *directive.Directive parameter d that returns *jerr.JApiError builds each of its errors with an error method whose receiver is d (d.KeywordError, d.BodyError, ...) or returns the error of a callee that was given d; errors located on another directive need a named exception", 20)
	corePk := c.P.Pkg("core")
	for _, f := range c.libFns() {
		if f.Pkg != corePk {
			continue
		}
		sig := f.Obj.Type().(*types.Signature)
		if sig.Results().Len() != 1 || !isJApiErrorPtr(sig.Results().At(0).Type()) {
			continue
		}
		d := directiveParam(f)
		if d == nil {
			continue
		}
		nDir := 0
		for _, fl := range f.Decl.Type.Params.List {
			for _, n := range fl.Names {
				if namedType(corePk.TypesInfo.Defs[n].Type()) == prog.ModulePath+"/directive.Directive" {
					nDir++
				}
			}
		}
		if nDir != 1 {
			continue
		}
		bad := ""
		nret := 0
		ast.Inspect(f.Decl.Body, func(n ast.Node) bool {
			if fl, ok := n.(*ast.FuncLit); ok {
				_ = fl
				return false
			}
			ret, ok := n.(*ast.ReturnStmt)
			if !ok || len(ret.Results) != 1 || isNil(corePk, ret.Results[0]) {
				return true
			}
			nret++
			call, ok := ast.Unparen(ret.Results[0]).(*ast.CallExpr)
			if !ok {
				return true // returns a variable holding a callee's error
			}
			sel, ok := ast.Unparen(call.Fun).(*ast.SelectorExpr)
			if !ok {
				return true // plain function call: judged by its own obligation
			}
			recvT := corePk.TypesInfo.TypeOf(sel.X)
			if namedType(recvT) != prog.ModulePath+"/directive.Directive" {
				return true
			}
			if id, ok := ast.Unparen(sel.X).(*ast.Ident); ok && corePk.TypesInfo.Uses[id] == d {
				return true
			}
			bad = exprString(sel.X) + "." + sel.Sel.Name + " at " + c.pos(ret.Pos())
			return true
		})
		key := f.Name()
		switch {
		case bad == "":
			r.Ok("C03-ERR-RECEIVER", key, fmt.Sprintf("%d error returns, all located on the function's own directive or delegated", nret), c.pos(f.Decl.Pos()))
		default:
			if why, ok := errReceiverExceptions[key]; ok {
				r.Ok("C03-ERR-RECEIVER", key, "named exception: "+why, c.pos(f.Decl.Pos()))
				r.Except(key, why)
			} else {
				r.Bad("C03-ERR-RECEIVER", key, "an error is located on another directive than the one the function handles: "+bad, c.pos(f.Decl.Pos()))
			}
		}
	}
}

// ---------- dropped errors ----------

var droppedErrorExceptions = map[string]string{
	"catalog.(ObjectBuilder).Build | s.LoadOnce.Do":        "known finding F15 (C04): load error of the path-variable schema is discarded",
	"catalog.(ObjectBuilder).Build | s.Compile":            "known finding F15 (C04): compile error of the path-variable schema is discarded",
	"core.(*JApiCore).UserTypesData | core.userTypes.Each": "the closure returns nil on every path",
}

func (c *Ctx) ruleNoDroppedError(rule string) { c.ruleNoDroppedErrorOpt(rule, true) }

func (c *Ctx) ruleNoDroppedErrorOpt(rule string, useExceptions bool) {
	c.ruleNoDroppedErrorRoots(rule, useExceptions, nil, 3)
}

// ruleNoDroppedErrorRoots: roots nil = the build entry points; otherwise the given root functions (e.g. the export).
func (c *Ctx) ruleNoDroppedErrorRoots(rule string, useExceptions bool, roots []*ssa.Function, floor int) {
	r := c.R
	r.Rule(rule, "in functions reachable from the entry points of this property (build, or the serialisers and the OpenAPI export) no call that returns an error-like value has that result discarded (expression statement, `_ =`, or `_` in a tuple), except iterator calls whose closure returns nil on every path and named exceptions", floor)
	if roots == nil {
		roots = c.ssaRoots(buildRoots...)
	}
	reach := reachDecls(c.reachableLib(roots, nil))
	n := 0
	for _, f := range c.libFns() {
		if !reach[f.Obj] {
			continue
		}
		pk := f.Pkg
		check := func(call *ast.CallExpr, discardedIdx func(i int) bool, site ast.Node) {
			t := pk.TypesInfo.TypeOf(call)
			if t == nil {
				return
			}
			var results []types.Type
			if tup, ok := t.(*types.Tuple); ok {
				for i := 0; i < tup.Len(); i++ {
					results = append(results, tup.At(i).Type())
				}
			} else {
				results = []types.Type{t}
			}
			for i, rt := range results {
				if !isErrorLike(rt) || !discardedIdx(i) {
					continue
				}
				cal := callee(pk, call)
				if cal != nil && cal.Pkg() != nil {
					p := cal.Pkg().Path()
					if p == "fmt" || p == "strings" || p == "bytes" || p == "hash" || strings.HasPrefix(p, "hash/") {
						continue // writers that cannot fail (strings.Builder, bytes.Buffer, hash.Hash)
					}
					if rn := namedType(cal.Type().(*types.Signature).Recv().Type()); cal.Type().(*types.Signature).Recv() != nil && (rn == "bytes.Buffer" || rn == "strings.Builder") {
						continue
					}
				}
				n++
				key := fmt.Sprintf("%s | %s", f.Name(), exprString(call.Fun))
				// iterator with an all-nil closure
				if len(call.Args) == 1 {
					if fl, ok := call.Args[0].(*ast.FuncLit); ok {
						allNil := true
						if fl.Type.Results != nil {
							for _, fld := range fl.Type.Results.List {
								if len(fld.Names) > 0 {
									allNil = false // a named result can be set by a deferred handler
								}
							}
						}
						ast.Inspect(fl.Body, func(m ast.Node) bool {
							if ret, ok := m.(*ast.ReturnStmt); ok && len(ret.Results) > 0 && !isNil(pk, ret.Results[len(ret.Results)-1]) {
								allNil = false
							}
							return true
						})
						if allNil {
							r.Ok(rule, key, "iterator whose closure returns nil on every path", c.pos(site.Pos()))
							continue
						}
					}
				}
				if why, ok := droppedErrorExceptions[key]; ok && (useExceptions || !strings.Contains(why, "known finding")) {
					r.Ok(rule, key, "named exception: "+why, c.pos(site.Pos()))
					r.Except(key, why)
					continue
				}
				r.Bad(rule, key, "an error result is discarded on the build path: a fault detected by the callee is not reported", c.pos(site.Pos()))
			}
		}
		ast.Inspect(f.Decl.Body, func(nd ast.Node) bool {
			switch x := nd.(type) {
			case *ast.ExprStmt:
				if call, ok := x.X.(*ast.CallExpr); ok {
					if id, ok := call.Fun.(*ast.Ident); ok {
						if _, isB := pk.TypesInfo.Uses[id].(*types.Builtin); isB {
							return true
						}
					}
					check(call, func(int) bool { return true }, x)
				}
			case *ast.AssignStmt:
				if len(x.Rhs) == 1 {
					if call, ok := x.Rhs[0].(*ast.CallExpr); ok {
						check(call, func(i int) bool {
							if i >= len(x.Lhs) {
								return false
							}
							id, ok := x.Lhs[i].(*ast.Ident)
							return ok && id.Name == "_"
						}, x)
					}
				}
			case *ast.DeferStmt:
				return true
			}
			return true
		})
	}
	if n == 0 {
		r.OkTrivial(rule, "none", "no discarded error result on the build path", "")
	}
}

// ---------- annotation ----------

var annotationExceptions = map[string]string{}

func (c *Ctx) ruleAnnotationUseOrReject() {
	r := c.R
	r.Rule("C03-ANNOTATION-USE-OR-REJECT", "for every directive kind, the handler or collector that consumes it (directiveFunctions entry, collectTag, collectPathVariables, addMacro, processPasteDirective, checkTagsDirective, buildRule->AddEnum) either reads d.Annotation into the catalog or returns AnnotationIsForbiddenForTheDirective when it is non-empty (directly or in a function it calls with d)", 20)
	kinds := c.handlerKinds()
	// collectors outside the dispatch table
	extra := map[string][2]string{
		"TAG":     {"core", "JApiCore.collectTag"},
		"Path":    {"core", "JApiCore.collectPathVariables"},
		"Macro":   {"core", "JApiCore.addMacro"},
		"Paste":   {"core", "JApiCore.processPasteDirective"},
		"Tags":    {"catalog", "checkTagsDirective"},
		"Enum":    {"catalog", "Catalog.enumDirectiveToUserRule"},
		"Include": {"", ""},
	}
	handlerOf := map[string]*types.Func{}
	for fn, ks := range kinds {
		for k := range ks {
			// prefer the table entry (functions registered directly)
			if _, isHandler := handlerOf[k]; !isHandler || strings.HasPrefix(fn.Name(), "add") {
				handlerOf[k] = fn
			}
		}
	}
	t := c.Tables()
	var names []string
	for n := range t.Consts {
		names = append(names, n)
	}
	sort.Strings(names)
	for _, kind := range names {
		var fn *types.Func
		if e, ok := extra[kind]; ok {
			if e[0] == "" {
				r.OkTrivial("C03-ANNOTATION-USE-OR-REJECT", "kind "+kind, "INCLUDE is consumed by the scan loop: an annotation after the file name has no directive to attach to and is rejected there (C01 F1 guard)", "")
				continue
			}
			fn = c.P.LookupFunc(e[0], e[1])
			if fn == nil && kind == "Paste" {
				fn = fnObj(c.pasteRoles().pasteDirective)
			}
			if fn == nil {
				// the collector was renamed, inlined or split: any function that branches on this kind (mentions its
				// constant), or a direct caller of such a function, through which the annotation is used or rejected
				fn = c.consumerByKind(kind)
			}
		} else {
			// dispatch table: find the registered handler for this kind
			fn = c.dispatchHandler(kind)
		}
		if fn == nil {
			r.Bad("C03-ANNOTATION-USE-OR-REJECT", "kind "+kind, "no handler or collector found for this directive kind", "")
			continue
		}
		if c.usesOrRejectsAnnotation(fn, 3, map[*types.Func]bool{}) {
			r.Ok("C03-ANNOTATION-USE-OR-REJECT", "kind "+kind, "handled by "+prog.FuncName(fn)+": annotation is stored or rejected", c.pos(fn.Pos()))
		} else if why, ok := annotationExceptions[kind]; ok {
			r.Ok("C03-ANNOTATION-USE-OR-REJECT", "kind "+kind, "named exception: "+why, c.pos(fn.Pos()))
		} else {
			r.Bad("C03-ANNOTATION-USE-OR-REJECT", "kind "+kind, "the handler "+prog.FuncName(fn)+" neither stores the annotation nor rejects it: a forbidden annotation is silently dropped", c.pos(fn.Pos()))
		}
	}
}

// consumerByKind: a library function outside package directive that mentions the Enumeration constant of the kind (or
// calls, directly, a function that does) and that uses or rejects the annotation of a directive it handles.
func (c *Ctx) consumerByKind(kind string) *types.Func {
	mentions := map[*types.Func]bool{}
	var fns []*Fn
	for _, f := range c.libFns() {
		if f.Pkg.Types.Name() == "directive" {
			continue
		}
		fns = append(fns, f)
		ast.Inspect(f.Decl.Body, func(n ast.Node) bool {
			if e, ok := n.(ast.Expr); ok {
				if k := constObj(f.Pkg, e); k != nil && k.Name() == kind && namedType(k.Type()) == prog.ModulePath+"/directive.Enumeration" {
					mentions[f.Obj] = true
				}
			}
			return true
		})
	}
	var cands []*Fn
	for _, f := range fns {
		if mentions[f.Obj] {
			cands = append(cands, f)
			continue
		}
		calls := false
		ast.Inspect(f.Decl.Body, func(n ast.Node) bool {
			if call, ok := n.(*ast.CallExpr); ok {
				if cal := callee(f.Pkg, call); cal != nil && mentions[cal.Origin()] {
					calls = true
				}
			}
			return true
		})
		if calls {
			cands = append(cands, f)
		}
	}
	sort.Slice(cands, func(i, j int) bool { return cands[i].Name() < cands[j].Name() })
	for _, f := range cands {
		if c.usesOrRejectsAnnotation(f.Obj, 3, map[*types.Func]bool{}) {
			return f.Obj
		}
	}
	return nil
}

// dispatchTable reads the handler table: the map literals (and indexed assignments) of package core whose type is the
// type of the JApiCore field that maps a directive kind to its handler -- wherever they are written (constructor, a
// helper of it, an init function). Kind name -> handler method.
func (c *Ctx) dispatchTable() map[string]*types.Func {
	if c.dispatch != nil {
		return c.dispatch
	}
	c.dispatch = map[string]*types.Func{}
	pk := c.P.Pkg("core")
	df := c.coreField("directiveFunctions")
	if pk == nil {
		return c.dispatch
	}
	var tableT types.Type
	if df != nil {
		tableT = df.Type()
	} else if tn := c.P.LookupType("core", "JApiCore"); tn != nil {
		// the field was renamed: the field of JApiCore of type map[directive.Enumeration]func(...)
		if st, ok := tn.Type().Underlying().(*types.Struct); ok {
			for i := 0; i < st.NumFields(); i++ {
				if m, ok := st.Field(i).Type().Underlying().(*types.Map); ok && namedType(m.Key()) == prog.ModulePath+"/directive.Enumeration" {
					if _, isFn := m.Elem().Underlying().(*types.Signature); isFn {
						tableT = st.Field(i).Type()
					}
				}
			}
		}
	}
	if tableT == nil {
		return c.dispatch
	}
	handlerOf := func(e ast.Expr) *types.Func {
		switch x := ast.Unparen(e).(type) {
		case *ast.SelectorExpr:
			m, _ := pk.TypesInfo.Uses[x.Sel].(*types.Func)
			return m
		case *ast.Ident:
			m, _ := pk.TypesInfo.Uses[x].(*types.Func)
			return m
		}
		return nil
	}
	for _, f := range c.libFns() {
		if f.Pkg != pk {
			continue
		}
		ast.Inspect(f.Decl.Body, func(n ast.Node) bool {
			switch x := n.(type) {
			case *ast.CompositeLit:
				if t := pk.TypesInfo.TypeOf(x); t == nil || !types.Identical(t, tableT) {
					return true
				}
				for _, el := range x.Elts {
					if kv, ok := el.(*ast.KeyValueExpr); ok {
						if k := constObj(pk, kv.Key); k != nil {
							if m := handlerOf(kv.Value); m != nil {
								c.dispatch[k.Name()] = m
							}
						}
					}
				}
			case *ast.AssignStmt:
				for i, l := range x.Lhs {
					ix, ok := ast.Unparen(l).(*ast.IndexExpr)
					if !ok || i >= len(x.Rhs) {
						continue
					}
					if t := pk.TypesInfo.TypeOf(ix.X); t == nil || !types.Identical(t, tableT) {
						continue
					}
					if k := constObj(pk, ix.Index); k != nil {
						if m := handlerOf(x.Rhs[i]); m != nil {
							c.dispatch[k.Name()] = m
						}
					}
				}
			}
			return true
		})
	}
	return c.dispatch
}

// dispatchHandler: the handler of the kind in the handler table.
func (c *Ctx) dispatchHandler(kind string) *types.Func {
	return c.dispatchTable()[kind]
}

// usesOrRejectsAnnotation: the function (or a callee that is given its directive, depth-limited) mentions the Annotation field.
func (c *Ctx) usesOrRejectsAnnotation(fn *types.Func, depth int, seen map[*types.Func]bool) bool {
	if seen[fn] || depth < 0 {
		return false
	}
	seen[fn] = true
	f := c.fnOf(fn)
	if f == nil {
		return false
	}
	pk := f.Pkg
	found := false
	ast.Inspect(f.Decl.Body, func(n ast.Node) bool {
		if sel, ok := n.(*ast.SelectorExpr); ok {
			if fld := fieldSel(pk, sel); fld != nil && fld.Name() == "Annotation" && namedType(pk.TypesInfo.TypeOf(sel.X)) == prog.ModulePath+"/directive.Directive" {
				found = true
			}
		}
		return !found
	})
	if found {
		return true
	}
	res := false
	ast.Inspect(f.Decl.Body, func(n ast.Node) bool {
		call, ok := n.(*ast.CallExpr)
		if !ok || res {
			return !res
		}
		cal := callee(pk, call)
		if cal == nil || !c.P.IsLibPkg(cal.Pkg()) {
			return true
		}
		passes := false
		for _, a := range call.Args {
			if strings.Contains(namedType(pk.TypesInfo.TypeOf(a)), "directive.Directive") {
				passes = true
			}
		}
		if passes && c.usesOrRejectsAnnotation(cal, depth-1, seen) {
			res = true
		}
		return true
	})
	return res
}

func (c *Ctx) ruleJsightFirst() {
	r := c.R
	r.Rule("C03-JSIGHT-FIRST", "buildCatalog compares the kind of element 0 of the expanded directive list with directive.Jsight and returns the error before addDirectives runs; AddJSight refuses a second JSIGHT", 2)
	f := c.fn("core", "JApiCore.buildCatalog")
	if f == nil {
		r.Undecided("C03-JSIGHT-FIRST", "anchor", "buildCatalog not found", "")
		return
	}
	pk := f.Pkg
	js := c.enumConst("Jsight")
	var guard *ast.IfStmt
	ast.Inspect(f.Decl.Body, func(n ast.Node) bool {
		ifs, ok := n.(*ast.IfStmt)
		if !ok || !returnsNonNilError(pk, ifs.Body.List) {
			return true
		}
		usesJs, idx0 := false, false
		ast.Inspect(ifs.Cond, func(m ast.Node) bool {
			switch x := m.(type) {
			case *ast.SelectorExpr:
				if pk.TypesInfo.Uses[x.Sel] == js && js != nil {
					usesJs = true
				}
			case *ast.IndexExpr:
				if k, ok := constInt(pk, x.Index); ok && k == 0 {
					idx0 = true
				}
			}
			return true
		})
		if usesJs && idx0 {
			guard = ifs
		}
		return true
	})
	ad := callsIn(pk, f.Decl.Body, c.P.LookupFunc("core", "JApiCore.addDirectives"))
	if guard != nil && len(ad) == 1 && buildCFG(f.Decl.Body).dominatedBy(ad[0], guard.Cond) {
		r.Ok("C03-JSIGHT-FIRST", "buildCatalog", "the first-directive test returns its error before addDirectives", c.pos(guard.Pos()))
	} else {
		r.Bad("C03-JSIGHT-FIRST", "buildCatalog", "the JSIGHT-first test is missing or does not dominate addDirectives", c.pos(f.Decl.Pos()))
	}
	// before any directive is taken out of the scanned list: a function that removes elements from core.directives
	// (collectMacro) is only called after a JSIGHT-first test of that very list (F28: a leading MACRO hid a missing
	// or misplaced JSIGHT from the test in buildCatalog, which looks at the list after the removal)
	if dirs := c.coreField("directives"); dirs != nil {
		isGuardOn := func(g *Fn, ifs *ast.IfStmt) bool {
			if !returnsNonNilError(g.Pkg, ifs.Body.List) {
				return false
			}
			usesJs, idx0 := false, false
			ast.Inspect(ifs.Cond, func(m ast.Node) bool {
				switch x := m.(type) {
				case *ast.SelectorExpr:
					if g.Pkg.TypesInfo.Uses[x.Sel] == js && js != nil {
						usesJs = true
					}
				case *ast.IndexExpr:
					if k, ok := constInt(g.Pkg, x.Index); ok && k == 0 && fieldSel(g.Pkg, x.X) == dirs {
						idx0 = true
					}
				}
				return true
			})
			return usesJs && idx0
		}
		nRem := 0
		for _, rem := range c.libFns() {
			if rem.Pkg != pk {
				continue
			}
			removes := false
			ast.Inspect(rem.Decl.Body, func(n ast.Node) bool {
				as, ok := n.(*ast.AssignStmt)
				if !ok || len(as.Lhs) != 1 || len(as.Rhs) != 1 || fieldSel(pk, as.Lhs[0]) != dirs {
					return true
				}
				if call, ok := ast.Unparen(as.Rhs[0]).(*ast.CallExpr); ok && len(call.Args) == 2 && call.Ellipsis.IsValid() {
					if id, ok := call.Fun.(*ast.Ident); ok && id.Name == "append" {
						if _, isSlice := ast.Unparen(call.Args[0]).(*ast.SliceExpr); isSlice {
							removes = true
						}
					}
				}
				return true
			})
			if !removes {
				continue
			}
			for _, g := range c.libFns() {
				if g.Pkg != pk {
					continue
				}
				calls := callsIn(pk, g.Decl.Body, rem.Obj)
				if len(calls) == 0 {
					continue
				}
				gcf := buildCFG(g.Decl.Body)
				for _, call := range calls {
					nRem++
					ok := false
					ast.Inspect(g.Decl.Body, func(n ast.Node) bool {
						if ifs, isIf := n.(*ast.IfStmt); isIf && isGuardOn(g, ifs) && gcf.dominatedBy(call, ifs.Cond) {
							ok = true
						}
						return true
					})
					// a list without any directive has no JSIGHT either
					emptyOK := false
					ast.Inspect(g.Decl.Body, func(n ast.Node) bool {
						ifs, isIf := n.(*ast.IfStmt)
						if !isIf || !returnsNonNilError(g.Pkg, ifs.Body.List) || !gcf.dominatedBy(call, ifs.Cond) {
							return true
						}
						for _, at := range impliedAtoms(ifs.Cond, true) {
							be, isBe := at.e.(*ast.BinaryExpr)
							if !isBe || !at.holds {
								continue
							}
							lc, isCall := ast.Unparen(be.X).(*ast.CallExpr)
							if !isCall || len(lc.Args) != 1 || exprString(lc.Fun) != "len" || fieldSel(g.Pkg, lc.Args[0]) != dirs {
								continue
							}
							if k, isK := constInt(g.Pkg, be.Y); isK && ((be.Op == token.EQL && k == 0) || (be.Op == token.LSS && k == 1) || (be.Op == token.LEQ && k == 0)) {
								emptyOK = true
							}
						}
						return true
					})
					if emptyOK {
						r.Ok("C03-JSIGHT-FIRST", g.Obj.Name()+" | empty document", "a list without any directive returns the JSIGHT error", c.pos(call.Pos()))
					} else {
						r.Bad("C03-JSIGHT-FIRST", g.Obj.Name()+" | empty document", "a document without any directive passes the JSIGHT test: it is accepted with an empty jsight version", c.pos(call.Pos()))
					}
					key := fmt.Sprintf("%s before %s", g.Obj.Name(), rem.Obj.Name())
					if ok {
						r.Ok("C03-JSIGHT-FIRST", key, "the first-directive test of the scanned list precedes the removal of directives from it", c.pos(call.Pos()))
					} else {
						r.Bad("C03-JSIGHT-FIRST", key, "directives are removed from the scanned list before it was tested that its first element is JSIGHT: a leading MACRO hides a missing or misplaced JSIGHT", c.pos(call.Pos()))
					}
				}
			}
		}
		if nRem == 0 {
			r.OkTrivial("C03-JSIGHT-FIRST", "removal", "no function removes elements from the scanned directive list", "")
		}
	}
	if g := c.fn("catalog", "Catalog.AddJSight"); g != nil {
		ok := false
		ast.Inspect(g.Decl.Body, func(n ast.Node) bool {
			if ifs, isIf := n.(*ast.IfStmt); isIf && returnsNonNilError(g.Pkg, ifs.Body.List) {
				if be, isBe := ast.Unparen(ifs.Cond).(*ast.BinaryExpr); isBe && be.Op == token.NEQ {
					if fld := fieldSel(g.Pkg, be.X); fld != nil && fld.Name() == "JSightVersion" {
						ok = true
					}
				}
			}
			return true
		})
		if !ok {
			// the inverted form: the version is stored only on the edge on which it was found empty, and the function
			// returns an error otherwise
			cf := buildCFG(g.Decl.Body)
			ast.Inspect(g.Decl.Body, func(n ast.Node) bool {
				as, isAs := n.(*ast.AssignStmt)
				if !isAs || len(as.Lhs) != 1 {
					return true
				}
				if fld := fieldSel(g.Pkg, as.Lhs[0]); fld == nil || fld.Name() != "JSightVersion" {
					return true
				}
				est := cf.establishedAt(as, func(cond ast.Expr, trueEdge bool) bool {
					for _, a := range impliedAtoms(cond, trueEdge) {
						if be, isBe := a.e.(*ast.BinaryExpr); isBe && isEmptyStringLit(be.Y) {
							if fld := fieldSel(g.Pkg, be.X); fld != nil && fld.Name() == "JSightVersion" {
								if (be.Op == token.EQL && a.holds) || (be.Op == token.NEQ && !a.holds) {
									return true
								}
							}
						}
					}
					return false
				}, nil)
				refuses := false
				ast.Inspect(g.Decl.Body, func(m ast.Node) bool {
					if ret, isRet := m.(*ast.ReturnStmt); isRet && returnsNonNilError(g.Pkg, []ast.Stmt{ret}) {
						refuses = true
					}
					return true
				})
				if est && refuses {
					ok = true
				}
				return true
			})
		}
		if ok {
			r.Ok("C03-JSIGHT-FIRST", "AddJSight", "a second JSIGHT is refused", c.pos(g.Decl.Pos()))
		} else {
			r.Bad("C03-JSIGHT-FIRST", "AddJSight", "a repeated JSIGHT is not refused", c.pos(g.Decl.Pos()))
		}
	}
}

// ruleDeclaredNamesUnique: a table of package core that is keyed by a name a directive declares (the Name parameter
// of TYPE ...) takes a second declaration of the same name silently unless the insertion is guarded: the insertion
// X.Set(d.NamedParameter(p), d) must be dominated -- in the function itself or, when d is its parameter, in every
// caller -- by a test of X.Has(<the same parameter of the same directive>) whose hit returns an error (an extra
// conjunct `name != ""` is allowed: a missing name is reported on the directive itself).
func (c *Ctx) ruleDeclaredNamesUnique() {
	r := c.R
	r.Rule("C03-DECLARED-NAMES-UNIQUE", "in package core every insertion into an ordered map under a key taken from a directive's named parameter is dominated (in the function, or in each caller that hands the directive in) by a Has test of the same map for the same parameter of the same directive whose hit returns an error: a second declaration is rejected at the second declaration, it does not replace the first", 1)
	pk := c.P.Pkg("core")
	if pk == nil {
		r.Undecided("C03-DECLARED-NAMES-UNIQUE", "anchor", "package core not loaded", "")
		return
	}
	type keySig struct{ base, param string }
	sigOf := func(g *Fn, e ast.Expr) (keySig, ast.Expr, bool) {
		call, ok := ast.Unparen(e).(*ast.CallExpr)
		if !ok || len(call.Args) != 1 {
			return keySig{}, nil, false
		}
		cal := callee(g.Pkg, call)
		if cal == nil || cal.Name() != "NamedParameter" {
			return keySig{}, nil, false
		}
		sel, ok := ast.Unparen(call.Fun).(*ast.SelectorExpr)
		lit, isConst := constString(g.Pkg, call.Args[0])
		if !ok || !isConst {
			return keySig{}, nil, false
		}
		return keySig{accessPath(g.Pkg, sel.X), lit}, sel.X, true
	}
	// guarded: in g, `site` is dominated by an if whose condition has the conjunct M.Has(k) with k of signature sig
	guarded := func(g *Fn, site ast.Node, mapPath string, sig keySig) bool {
		cf := buildCFG(g.Decl.Body)
		found := false
		ast.Inspect(g.Decl.Body, func(n ast.Node) bool {
			ifs, ok := n.(*ast.IfStmt)
			if !ok || !returnsNonNilError(g.Pkg, ifs.Body.List) {
				return true
			}
			// locals defined in the init from a call of the same signature
			locals := map[types.Object]bool{}
			if as, ok := ifs.Init.(*ast.AssignStmt); ok && len(as.Lhs) == 1 && len(as.Rhs) == 1 {
				if s2, _, ok := sigOf(g, as.Rhs[0]); ok && s2 == sig {
					if id, ok := as.Lhs[0].(*ast.Ident); ok {
						locals[g.Pkg.TypesInfo.Defs[id]] = true
					}
				}
			}
			for _, a := range impliedAtoms(ifs.Cond, true) {
				call, ok := a.e.(*ast.CallExpr)
				if !ok || !a.holds || len(call.Args) != 1 {
					continue
				}
				cal := callee(g.Pkg, call)
				if cal == nil || cal.Name() != "Has" {
					continue
				}
				sel, ok := ast.Unparen(call.Fun).(*ast.SelectorExpr)
				if !ok || accessPath(g.Pkg, sel.X) != mapPath {
					continue
				}
				keyOK := false
				if s2, _, ok := sigOf(g, call.Args[0]); ok && s2 == sig {
					keyOK = true
				}
				if id, ok := ast.Unparen(call.Args[0]).(*ast.Ident); ok && locals[g.Pkg.TypesInfo.Uses[id]] {
					keyOK = true
				}
				if keyOK && cf.dominatedBy(site, ifs.Cond) {
					found = true
				}
			}
			return true
		})
		return found
	}
	n := 0
	for _, f := range c.libFns() {
		if f.Pkg != pk {
			continue
		}
		ast.Inspect(f.Decl.Body, func(nd ast.Node) bool {
			call, ok := nd.(*ast.CallExpr)
			if !ok || len(call.Args) != 2 {
				return true
			}
			cal := callee(pk, call)
			if cal == nil || (cal.Name() != "Set" && cal.Name() != "SetToTop") {
				return true
			}
			sel, ok := ast.Unparen(call.Fun).(*ast.SelectorExpr)
			if !ok || !orderedMapType(pk.TypesInfo.TypeOf(sel.X)) {
				return true
			}
			sig, base, ok := sigOf(f, call.Args[0])
			if !ok {
				return true // keyed by something that is not a declared name (a derived table)
			}
			n++
			key := fmt.Sprintf("%s | %s.Set(%s)", f.Name(), exprString(sel.X), exprString(call.Args[0]))
			mapPath := accessPath(pk, sel.X)
			if guarded(f, call, mapPath, sig) {
				r.Ok("C03-DECLARED-NAMES-UNIQUE", key, "a Has test of the same map and parameter with an error on a hit dominates the insertion", c.pos(call.Pos()))
				return true
			}
			// lift to the callers when the directive and the map are the function's parameter and receiver
			sites, closed := c.callersOf(f)
			okAll := len(sites) > 0
			if f.Obj.Exported() {
				// exported but only meaningful inside the build: the callers inside the library are what the build runs
				closed = true
			}
			for _, cs := range sites {
				mp, bp := rebase(f, sel.X, cs), rebase(f, base, cs)
				if mp == "" || bp == "" || !guarded(cs.g, cs.call, mp, keySig{bp, sig.param}) {
					okAll = false
				}
			}
			if closed && okAll {
				r.Ok("C03-DECLARED-NAMES-UNIQUE", key, fmt.Sprintf("each of the %d callers tests Has for the same parameter of the directive it hands in, with an error on a hit, before the call", len(sites)), c.pos(call.Pos()))
			} else {
				r.Bad("C03-DECLARED-NAMES-UNIQUE", key, "a declared name is inserted without a dominating presence test: a second declaration of the name silently replaces the first (and is compiled in its place)", c.pos(call.Pos()))
			}
			return true
		})
	}
	if n == 0 {
		r.Undecided("C03-DECLARED-NAMES-UNIQUE", "sites", "no table keyed by a declared name found (rawUserTypes used to match)", "")
	}
}
