package rules

import (
	"fmt"
	"go/ast"
	"go/constant"
	"go/token"
	"go/types"
	"sort"
	"strings"

	"golang.org/x/tools/go/packages"

	"jsverif/internal/prog"
)

func init() { register("C10", propC10, false, false) }

func propC10(c *Ctx) {
	c.R.Explanation = "Decides the mechanisms PASTE transparency rests on: every macro cycle is rejected before expansion (the recursion check follows the macro table with a verified three-colour visited state and runs, with its error returned, before processPaste); an undefined or unnamed macro is an error; MACRO definitions are removed from the directive list before expansion and skipped by the path collector; expansion works on copies whose links are reset, and an explicit context restores the copy's parent. Not decided: equality of the catalog with the in-place text for every call site (behavioural)."
	c.ruleC10Cycle()
	c.ruleC10Undefined()
	c.ruleC10MacroRemoved()
	c.ruleC10CopyReset()
	c.ruleC10CopyIdentity()
	c.ruleC11Table(c.Tables()) // where a PASTE may stand and what may stand under it: a row that lets a directive become the child of a PASTE makes it vanish with the expansion
	c.rulePhaseConstructor()                  // the expansion pass looks at the directives, never at the text of the root file
	c.ruleMemoCoverage("C10-MEMO-KEY-COVERS") // the copies of a pasted directive share its coordinates: a memo keyed by them confuses the copies
	c.ruleC10RulesWithBody()
	c.ruleNextDirectiveRecognised("C10-NEXT-DIRECTIVE") // a PASTE after an implicit Description must be seen
	// the copies a PASTE makes share the coordinates of the macro body: "same offset" does not mean "same directive"
	c.rulePositionNeedsFile("C10-POSITION-NEEDS-FILE")
	// the copies share the maps and slices of the original: a method that takes the directive by value must not write
	// through them
	c.ruleValueReceiverWrites("C10-VALUE-RECEIVER-PURE")
	// what a PASTE brings is declared like what is written in place: a second declaration of a name is an error
	// whether or not it is "the same" directive
	c.ruleNoSkipOnExists()
	// what a PASTE brings exists only in the expanded list: every collector after the expansion must work on it
	c.ruleExpandedTree()
	c.ruleWalkEveryKind("C10-WALK-EVERY-KIND")
	c.ruleExplicitFlagWriters("C10-EXPLICIT-FLAG-WRITERS") // the expansion pass reads the flag again
	c.ruleDirectivesReadOnlyInBuild("C10-DIRECTIVES-READ-ONLY")
}

// ruleValueReceiverWrites: a method with a value receiver works on a copy of the struct, but the copy shares every map,
// slice and pointer of the original - and so do the copies CopyWoParentAndChildren makes for a PASTE. A store through
// such a field inside a value-receiver method (a "cache" kept with the parameters) is invisible at the call site and
// lands in all copies at once.
func (c *Ctx) ruleValueReceiverWrites(rule string) {
	r := c.R
	r.Rule(rule, "no method with a value receiver (func (d T) ...) of a library struct stores into a map or slice element, or through a pointer, reached from the receiver (d.m[k] = v, d.s[i] = v, *d.p = v, delete(d.m, k)): getters are read-only for every copy of the value", 1)
	n, bad := 0, 0
	for _, f := range c.libFns() {
		if f.Decl.Recv == nil || len(f.Decl.Recv.List) != 1 || len(f.Decl.Recv.List[0].Names) != 1 {
			continue
		}
		if _, isPtr := f.Decl.Recv.List[0].Type.(*ast.StarExpr); isPtr {
			continue
		}
		pk := f.Pkg
		if strings.HasSuffix(pk.Fset.Position(f.Decl.Pos()).Filename, "_gen.go") {
			continue
		}
		recv := pk.TypesInfo.Defs[f.Decl.Recv.List[0].Names[0]]
		if recv == nil {
			continue
		}
		if _, isStruct := recv.Type().Underlying().(*types.Struct); !isStruct {
			continue
		}
		n++
		rooted := func(e ast.Expr) bool {
			for {
				switch x := ast.Unparen(e).(type) {
				case *ast.SelectorExpr:
					e = x.X
				case *ast.IndexExpr:
					e = x.X
				case *ast.StarExpr:
					e = x.X
				case *ast.Ident:
					return pk.TypesInfo.Uses[x] == recv
				default:
					return false
				}
			}
		}
		throughRef := func(e ast.Expr) bool {
			// the store passes an index or a dereference (a plain d.f = v changes the copy only)
			for {
				switch x := ast.Unparen(e).(type) {
				case *ast.SelectorExpr:
					if _, isPtr := pk.TypesInfo.TypeOf(x.X).Underlying().(*types.Pointer); isPtr {
						return true
					}
					e = x.X
				case *ast.IndexExpr:
					if _, isArr := pk.TypesInfo.TypeOf(x.X).Underlying().(*types.Array); !isArr {
						return true
					}
					e = x.X
				case *ast.StarExpr:
					return true
				default:
					return false
				}
			}
		}
		ast.Inspect(f.Decl.Body, func(nd ast.Node) bool {
			switch x := nd.(type) {
			case *ast.AssignStmt:
				for _, l := range x.Lhs {
					if rooted(l) && throughRef(l) {
						bad++
						r.Bad(rule, f.Name()+" | "+exprString(l), "a method with a value receiver stores through a map, slice or pointer of the receiver: the write lands in the original and in every copy that shares it (the copies a PASTE makes share the parameter maps), although the method looks like a getter to its callers", c.pos(x.Pos()))
					}
				}
			case *ast.CallExpr:
				if id, ok := x.Fun.(*ast.Ident); ok && (id.Name == "delete" || id.Name == "clear") && len(x.Args) > 0 && rooted(x.Args[0]) {
					bad++
					r.Bad(rule, f.Name()+" | "+exprString(x), "a method with a value receiver deletes from a map of the receiver: every copy that shares the map loses the entry", c.pos(x.Pos()))
				}
			}
			return true
		})
	}
	if bad == 0 {
		r.Ok(rule, "library", fmt.Sprintf("%d value-receiver methods of structs, none stores through the receiver", n), "")
	}
}

// ruleC10RulesWithBody: the ENUM rules declared inside a macro belong to its body. Wherever the body of a macro taken
// from the macro table is expanded (handed to the expansion walk), the rules of that same body have been collected on
// every path before: a paste site that expands the body without its rules differs from the body written in place.
func (c *Ctx) ruleC10RulesWithBody() {
	r := c.R
	r.Rule("C10-RULES-WITH-BODY", "every call that expands a macro body taken from the macro table (processPasteDirectiveList(m.Children)) is dominated by the collection of the rules of the same body (collectRulesFromDirectives(m.Children)) whose error is returned", 1)
	walk := fnObj(c.pasteRoles().walk)
	collect := c.P.LookupFunc("core", "JApiCore.collectRulesFromDirectives")
	table := c.macroTableField()
	if walk == nil || collect == nil || table == nil {
		r.Undecided("C10-RULES-WITH-BODY", "anchor", "processPasteDirectiveList / collectRulesFromDirectives / macro table not found", "")
		return
	}
	n := 0
	for _, f := range c.libFns() {
		pk := f.Pkg
		// locals bound to an entry of the macro table
		fromTable := map[string]bool{}
		ast.Inspect(f.Decl.Body, func(nd ast.Node) bool {
			if as, ok := nd.(*ast.AssignStmt); ok && len(as.Rhs) == 1 {
				if b, _, isIdx := indexOn(pk, as.Rhs[0]); isIdx && fieldSel(pk, b) == table && len(as.Lhs) >= 1 {
					fromTable[accessPath(pk, as.Lhs[0])] = true
				}
			}
			return true
		})
		if len(fromTable) == 0 {
			continue
		}
		cf := buildCFG(f.Decl.Body)
		for _, call := range callsIn(pk, f.Decl.Body, walk) {
			if len(call.Args) != 1 {
				continue
			}
			arg := accessPath(pk, call.Args[0])
			isBody := false
			for m := range fromTable {
				if strings.HasPrefix(arg, m+".") {
					isBody = true
				}
			}
			if !isBody {
				continue
			}
			n++
			key := fmt.Sprintf("%s | expansion of %s", f.Obj.Name(), exprString(call.Args[0]))
			ok := false
			for _, cc := range callsIn(pk, f.Decl.Body, collect) {
				if len(cc.Args) == 1 && accessPath(pk, cc.Args[0]) == arg && cf.dominatedBy(call, cc) {
					ok = true
				}
			}
			if ok {
				r.Ok("C10-RULES-WITH-BODY", key, "the rules of the same body are collected on every path before it is expanded", c.pos(call.Pos()))
			} else {
				r.Bad("C10-RULES-WITH-BODY", key, "a macro body can be expanded without its ENUM rules having been collected (the collection is missing or conditional on the paste site): an enum used by the pasted body is not found although the body written in place works", c.pos(call.Pos()))
			}
		}
	}
	if n == 0 {
		// not written out in one function: ask the abstract evaluation of the handler
		if k, bad, und := c.rulesBeforeExpansionE8(); und == "" && k > 0 {
			if bad == "" {
				r.Ok("C10-RULES-WITH-BODY", "handler of PASTE (abstract evaluation)", fmt.Sprintf("%d path(s) expand a body taken from the macro table, each after the rules of that body were collected", k), "")
			} else {
				r.Bad("C10-RULES-WITH-BODY", "handler of PASTE (abstract evaluation)", bad+": an enum used by the pasted directives is unknown at that paste site", "")
			}
			return
		}
		r.Undecided("C10-RULES-WITH-BODY", "sites", "no expansion of a macro body found", "")
	}
}

// ruleC10CopyIdentity: the copies that the expansion makes of one macro directive share file and coordinates. A
// predicate of package directive that compares two directives by their coordinates therefore takes two copies of the
// same macro directive for one directive; a decision taken on it outside that package makes `PASTE @m` twice differ
// from the body written twice (F26: collectPathVariables refused GET+Path pasted under two URLs).
func (c *Ctx) ruleC10CopyIdentity() {
	r := c.R
	r.Rule("C10-COPY-IDENTITY", "no function of the library (package directive included, the predicates themselves apart) decides by a predicate that compares two directives by their coordinates (copies made by PASTE have equal coordinates); directives are told apart by identity", 1)
	preds := map[*types.Func]bool{}
	for _, f := range c.libFns() {
		if f.Pkg.Types.Name() != "directive" {
			continue
		}
		sig := f.Obj.Type().(*types.Signature)
		if sig.Results().Len() != 1 {
			continue
		}
		if b, ok := sig.Results().At(0).Type().Underlying().(*types.Basic); !ok || b.Kind() != types.Bool {
			continue
		}
		ast.Inspect(f.Decl.Body, func(n ast.Node) bool {
			be, ok := n.(*ast.BinaryExpr)
			if !ok || (be.Op != token.EQL && be.Op != token.NEQ) {
				return true
			}
			fx, fy := fieldSel(f.Pkg, be.X), fieldSel(f.Pkg, be.Y)
			if fx == nil || fx != fy {
				return true
			}
			px, py := accessPath(f.Pkg, be.X), accessPath(f.Pkg, be.Y)
			if px == "" || py == "" || px == py {
				return true
			}
			// the compared field belongs to a coordinates structure (file / begin / end of a directive's position)
			if strings.Contains(px, "oords") {
				preds[f.Obj] = true
			}
			return true
		})
	}
	var names []string
	for p := range preds {
		names = append(names, prog.FuncName(p))
	}
	sort.Strings(names)
	r.Ok("C10-COPY-IDENTITY", "predicates", fmt.Sprintf("coordinate-equality predicates of package directive: %v", names), "")
	for _, f := range c.libFns() {
		if preds[f.Obj] {
			continue // the predicates themselves (one may be written with another)
		}
		for p := range preds {
			for _, call := range callsIn(f.Pkg, f.Decl.Body, p) {
				r.Bad("C10-COPY-IDENTITY", f.Name()+" | "+exprString(call.Fun), "two directives are taken for the same one when their coordinates are equal: the copies PASTE makes of one macro directive are", c.pos(call.Pos()))
			}
		}
	}
}

// macroTableField finds the field of core.JApiCore of type map[string]*directive.Directive.
func (c *Ctx) macroTableField() *types.Var {
	tn := c.P.LookupType("core", "JApiCore")
	if tn == nil {
		return nil
	}
	st, _ := tn.Type().Underlying().(*types.Struct)
	if st == nil {
		return nil
	}
	var out *types.Var
	for i := 0; i < st.NumFields(); i++ {
		f := st.Field(i)
		if m, ok := f.Type().Underlying().(*types.Map); ok {
			if b, ok := m.Key().Underlying().(*types.Basic); ok && b.Kind() == types.String &&
				namedType(m.Elem()) == prog.ModulePath+"/directive.Directive" {
				if out != nil {
					return nil
				}
				out = f
			}
		}
	}
	return out
}

// reachableInPkg: same-package functions reachable from root through static calls (AST level).
func (c *Ctx) reachableInPkg(root *Fn) []*Fn {
	seen := map[*types.Func]bool{root.Obj: true}
	out := []*Fn{root}
	for i := 0; i < len(out); i++ {
		f := out[i]
		ast.Inspect(f.Decl.Body, func(n ast.Node) bool {
			if call, ok := n.(*ast.CallExpr); ok {
				if cal := callee(f.Pkg, call); cal != nil && cal.Pkg() == f.Obj.Pkg() && !seen[cal] {
					if g := c.fnOf(cal); g != nil {
						seen[cal] = true
						out = append(out, g)
					}
				}
			}
			return true
		})
	}
	return out
}

func indexOn(pk *packages.Package, e ast.Expr) (base, key ast.Expr, ok bool) {
	ix, isIx := ast.Unparen(e).(*ast.IndexExpr)
	if !isIx {
		return nil, nil, false
	}
	if _, isMap := pk.TypesInfo.TypeOf(ix.X).Underlying().(*types.Map); !isMap {
		return nil, nil, false
	}
	return ix.X, ix.Index, true
}

// definitelyNonNilReturn: `return x` directly inside `if x != nil {` (possibly with init) or a call of an error constructor.
func definitelyNonNilReturn(pk *packages.Package, ret *ast.ReturnStmt, stack []ast.Node) bool {
	if len(ret.Results) != 1 {
		return false
	}
	res := ast.Unparen(ret.Results[0])
	if isNil(pk, res) {
		return false
	}
	if id, ok := res.(*ast.Ident); ok {
		obj := pk.TypesInfo.Uses[id]
		for i := len(stack) - 1; i >= 0; i-- {
			if ifs, ok := stack[i].(*ast.IfStmt); ok {
				if be, ok := ast.Unparen(ifs.Cond).(*ast.BinaryExpr); ok && be.Op == token.NEQ && isNil(pk, be.Y) {
					if cid, ok := ast.Unparen(be.X).(*ast.Ident); ok && pk.TypesInfo.Uses[cid] == obj &&
						ifs.Body.Pos() <= ret.Pos() && ret.End() <= ifs.Body.End() {
						return true
					}
				}
			}
		}
		return false
	}
	if call, ok := res.(*ast.CallExpr); ok {
		if cal := callee(pk, call); cal != nil {
			n := cal.Name()
			// error constructors of this repository: methods of *directive.Directive / helpers that always build an error
			if strings.HasSuffix(n, "Error") || n == "japiError" || n == "NewJApiError" || n == "New" || n == "Errorf" || n == "BodyErrorIndex" {
				return true
			}
		}
	}
	return false
}

func (c *Ctx) ruleC10Cycle() {
	r := c.R
	r.Rule("C10-CYCLE-REJECTED", "the macro recursion check follows the macro table with a three-colour visited state: (R1) a macro body taken from the table is descended into only after state[k]=BEING for the same k; (R2) after state[k]=BEING every path to a possibly-nil return sets state[k]=DONE; (R3) inside the recursive part a macro is entered only after the BEING test returned the recursion error; (R4) the check runs, and its error is returned, before processPaste; (R5) macros are visited in slice order", 5)
	table := c.macroTableField()
	root := c.fn("core", "JApiCore.checkMacroForRecursion")
	if table == nil || root == nil {
		r.Undecided("C10-CYCLE-REJECTED", "anchor", "macro table field or checkMacroForRecursion not found", "")
		return
	}
	fns := c.reachableInPkg(root)
	pk := root.Pkg
	inF := map[*types.Func]*Fn{}
	for _, f := range fns {
		inF[f.Obj] = f
	}
	isTableIndex := func(e ast.Expr) (key ast.Expr, ok bool) {
		b, k, ok := indexOn(pk, e)
		if !ok {
			return nil, false
		}
		if fld := fieldSel(pk, b); fld == table {
			return k, true
		}
		return nil, false
	}
	// state map = a map-typed parameter/local with a named integer element type declared in core
	isStateMap := func(e ast.Expr) bool {
		t := pk.TypesInfo.TypeOf(e)
		if t == nil {
			return false
		}
		m, ok := t.Underlying().(*types.Map)
		if !ok {
			return false
		}
		n, ok := m.Elem().(*types.Named)
		if !ok || n.Obj().Pkg() != pk.Types {
			return false
		}
		b, ok := n.Underlying().(*types.Basic)
		return ok && b.Info()&types.IsInteger != 0
	}
	// BEING: constant compared with state[k] in a condition whose branch returns a non-nil error
	var being, done *types.Const
	followsTable := false
	for _, f := range fns {
		inspectWithStack(f.Decl.Body, func(n ast.Node, stack []ast.Node) bool {
			if _, ok := n.(*ast.IndexExpr); ok {
				if _, ok := isTableIndex(n.(ast.Expr)); ok {
					followsTable = true
				}
			}
			ifs, ok := n.(*ast.IfStmt)
			if !ok {
				return true
			}
			be, ok := ast.Unparen(ifs.Cond).(*ast.BinaryExpr)
			if !ok || be.Op != token.EQL {
				return true
			}
			b, _, isIdx := indexOn(pk, be.X)
			if !isIdx || !isStateMap(b) {
				return true
			}
			k := constObj(pk, be.Y)
			if k == nil {
				return true
			}
			if returnsNonNilError(pk, ifs.Body.List) {
				being = k
			} else if returnsNil(nil, ifs.Body.List) {
				done = k
			}
			return true
		})
	}
	where := c.pos(root.Decl.Pos())
	if !followsTable {
		r.Bad("C10-CYCLE-REJECTED", "follows the macro table", "the recursion check never looks a PASTE name up in the macro table: only direct self-paste can be seen, longer cycles overflow the stack during expansion", where)
		return
	}
	r.Ok("C10-CYCLE-REJECTED", "follows the macro table", fmt.Sprintf("%d functions reachable from checkMacroForRecursion, the macro table is indexed", len(fns)), where)
	if being == nil || done == nil {
		r.Bad("C10-CYCLE-REJECTED", "visited state", "no three-colour state found (state[k]==BEING -> error, state[k]==DONE -> skip)", where)
		return
	}
	r.Ok("C10-CYCLE-REJECTED", "visited state", fmt.Sprintf("BEING=%s (test returns the recursion error), DONE=%s (test skips)", being.Name(), done.Name()), where)

	type assign struct {
		stmt *ast.AssignStmt
		key  string
		k    *types.Const
	}
	nR1, nR2, nR3 := 0, 0, 0
	for _, f := range fns {
		cf := buildCFG(f.Decl.Body)
		var assigns []assign
		var returns []*ast.ReturnStmt
		retStack := map[*ast.ReturnStmt][]ast.Node{}
		// variables holding a macro taken from the table: var -> key path
		macroVar := map[types.Object]string{}
		inspectWithStack(f.Decl.Body, func(n ast.Node, stack []ast.Node) bool {
			switch x := n.(type) {
			case *ast.AssignStmt:
				if len(x.Lhs) >= 1 && len(x.Rhs) == 1 {
					if b, k, ok := indexOn(pk, x.Lhs[0]); ok && isStateMap(b) {
						if kc := constObj(pk, x.Rhs[0]); kc != nil {
							assigns = append(assigns, assign{x, accessPath(pk, k), kc})
						}
					}
					if k, ok := isTableIndex(x.Rhs[0]); ok {
						if id, ok := ast.Unparen(x.Lhs[0]).(*ast.Ident); ok && id.Name != "_" {
							obj := pk.TypesInfo.Defs[id]
							if obj == nil {
								obj = pk.TypesInfo.Uses[id]
							}
							macroVar[obj] = accessPath(pk, k)
						}
					}
				}
			case *ast.ReturnStmt:
				returns = append(returns, x)
				retStack[x] = append([]ast.Node(nil), stack...)
			}
			return true
		})
		// R1: descents
		ast.Inspect(f.Decl.Body, func(n ast.Node) bool {
			call, ok := n.(*ast.CallExpr)
			if !ok {
				return true
			}
			cal := callee(pk, call)
			if cal == nil || inF[cal] == nil {
				return true
			}
			for _, a := range call.Args {
				key := ""
				if k, ok := isTableIndex(a); ok {
					key = accessPath(pk, k)
				} else if id, ok := ast.Unparen(a).(*ast.Ident); ok {
					key = macroVar[pk.TypesInfo.Uses[id]]
				}
				if key == "" {
					continue
				}
				nR1++
				okMark := false
				for _, as := range assigns {
					if as.k == being && as.key == key && cf.dominatedBy(call, as.stmt) {
						// no DONE for the same key between the mark and the descent
						clean := true
						for _, d2 := range assigns {
							if d2.k == done && d2.key == key && cf.reachesWithout(as.stmt, d2.stmt, nil) && cf.reachesWithout(d2.stmt, call, nil) && d2.stmt.Pos() < call.Pos() {
								clean = false
							}
						}
						if clean {
							okMark = true
						}
					}
				}
				id := fmt.Sprintf("R1 descent into table[%s] in %s", prettyPath(key), f.Name())
				if okMark {
					r.Ok("C10-CYCLE-REJECTED", id, "dominated by state[k]="+being.Name(), c.pos(call.Pos()))
				} else {
					r.Bad("C10-CYCLE-REJECTED", id, "the body of a macro taken from the table is walked without the macro being marked "+being.Name()+" first: a cycle that does not pass through the first macro of the walk is not detected (stack overflow during expansion)", c.pos(call.Pos()))
				}
			}
			return true
		})
		// R2: pairing
		for _, as := range assigns {
			if as.k != being {
				continue
			}
			nR2++
			bad := ""
			for _, ret := range returns {
				if definitelyNonNilReturn(pk, ret, retStack[ret]) {
					continue
				}
				if !cf.reachesWithout(as.stmt, ret, nil) {
					continue
				}
				covered := false
				for _, d2 := range assigns {
					if d2.k == done && d2.key == as.key && !cf.reachesWithout(as.stmt, ret, d2.stmt) {
						covered = true
					}
				}
				if !covered {
					bad = c.pos(ret.Pos())
				}
			}
			id := fmt.Sprintf("R2 state[%s]=%s in %s", prettyPath(as.key), being.Name(), f.Name())
			if bad == "" {
				r.Ok("C10-CYCLE-REJECTED", id, "every possibly-nil return after the mark passes state[k]="+done.Name(), c.pos(as.stmt.Pos()))
			} else {
				r.Bad("C10-CYCLE-REJECTED", id, "a path from the mark to the return at "+bad+" does not set the macro to "+done.Name()+": it stays 'being checked' and a later legal PASTE of it is reported as recursion", c.pos(as.stmt.Pos()))
			}
		}
	}
	// R3: inside the recursive part, entering a marker function needs the BEING test first
	markers := map[*types.Func]bool{} // functions that assign state[param]=BEING
	for _, f := range fns {
		ast.Inspect(f.Decl.Body, func(n ast.Node) bool {
			if as, ok := n.(*ast.AssignStmt); ok && len(as.Lhs) == 1 && len(as.Rhs) == 1 {
				if b, _, ok := indexOn(pk, as.Lhs[0]); ok && isStateMap(b) && constObj(pk, as.Rhs[0]) == being {
					markers[f.Obj] = true
				}
			}
			return true
		})
	}
	for _, f := range fns {
		if f.Obj == root.Obj {
			continue
		}
		cf := buildCFG(f.Decl.Body)
		var tests []*ast.IfStmt
		ast.Inspect(f.Decl.Body, func(n ast.Node) bool {
			if ifs, ok := n.(*ast.IfStmt); ok {
				if be, ok := ast.Unparen(ifs.Cond).(*ast.BinaryExpr); ok && be.Op == token.EQL && constObj(pk, be.Y) == being && returnsNonNilError(pk, ifs.Body.List) {
					tests = append(tests, ifs)
				}
			}
			return true
		})
		ast.Inspect(f.Decl.Body, func(n ast.Node) bool {
			call, ok := n.(*ast.CallExpr)
			if !ok {
				return true
			}
			if cal := callee(pk, call); cal != nil && markers[cal] {
				nR3++
				ok := false
				for _, t := range tests {
					if cf.dominatedBy(call, t.Cond) {
						ok = true
					}
				}
				id := fmt.Sprintf("R3 %s entered from %s", cal.Name(), f.Name())
				if ok {
					r.Ok("C10-CYCLE-REJECTED", id, "dominated by the on-path test that returns the recursion error", c.pos(call.Pos()))
				} else {
					r.Bad("C10-CYCLE-REJECTED", id, "a macro is entered from inside the walk without testing whether it is already on the path", c.pos(call.Pos()))
				}
			}
			return true
		})
	}
	if nR1 == 0 || nR2 == 0 {
		r.Bad("C10-CYCLE-REJECTED", "discipline sites", fmt.Sprintf("found %d descents and %d BEING marks: the three-colour discipline is not recognisable", nR1, nR2), where)
	}
	// R4: pipeline order
	if cc := c.fn("core", "JApiCore.compileCore"); cc != nil {
		pp := fnObj(c.pasteRoles().processPaste)
		a := callsIn(pk, cc.Decl.Body, root.Obj)
		b := callsIn(pk, cc.Decl.Body, pp)
		ok := len(a) == 1 && len(b) == 1 && buildCFG(cc.Decl.Body).dominatedBy(b[0], a[0])
		if ok {
			// error returned: the call is the init of an if je != nil { return je }
			ok = false
			ast.Inspect(cc.Decl.Body, func(n ast.Node) bool {
				if ifs, isIf := n.(*ast.IfStmt); isIf && ifs.Init != nil && len(callsIn(pk, ifs.Init, root.Obj)) == 1 && returnsNonNilError(pk, ifs.Body.List) {
					ok = true
				}
				return true
			})
		}
		if ok {
			r.Ok("C10-CYCLE-REJECTED", "R4 check before expansion", "compileCore returns the error of checkMacroForRecursion before it calls processPaste", c.pos(cc.Decl.Pos()))
		} else {
			r.Bad("C10-CYCLE-REJECTED", "R4 check before expansion", "processPaste can run although the recursion check did not pass (not called before, or its error is not returned)", c.pos(cc.Decl.Pos()))
		}
	}
	// R5: slice order
	okOrder := false
	ast.Inspect(root.Decl.Body, func(n ast.Node) bool {
		if rs, ok := n.(*ast.RangeStmt); ok {
			if _, isSlice := pk.TypesInfo.TypeOf(rs.X).Underlying().(*types.Slice); isSlice {
				okOrder = true
			} else {
				okOrder = false
			}
		}
		return true
	})
	if okOrder {
		r.Ok("C10-CYCLE-REJECTED", "R5 definition order", "macros are visited by ranging over a slice", where)
	} else {
		r.Bad("C10-CYCLE-REJECTED", "R5 definition order", "macros are not visited in slice order: the reported error depends on map iteration", where)
	}
	// R6: the walk is complete: inside a loop over directives (children of a macro body, the list of macros) the check
	// leaves early only with an error; a `return f(x)` or `return nil` inside such a loop skips the remaining siblings
	for _, f := range fns {
		inspectWithStack(f.Decl.Body, func(n ast.Node, stack []ast.Node) bool {
			ret, ok := n.(*ast.ReturnStmt)
			if !ok {
				return true
			}
			var loop *ast.RangeStmt
			for i := len(stack) - 1; i >= 0; i-- {
				if _, isLit := stack[i].(*ast.FuncLit); isLit {
					break
				}
				if rs, isRange := stack[i].(*ast.RangeStmt); isRange {
					loop = rs
					break
				}
			}
			if loop == nil {
				return true
			}
			t := pk.TypesInfo.TypeOf(loop.X)
			if t == nil {
				return true
			}
			sl, isSlice := t.Underlying().(*types.Slice)
			if !isSlice {
				return true
			}
			if nt := namedType(sl.Elem()); nt != prog.ModulePath+"/directive.Directive" && !strings.HasSuffix(types.TypeString(sl.Elem(), nil), "string") {
				return true
			}
			key := fmt.Sprintf("R6 complete walk | %s | return inside the loop over %s", f.Obj.Name(), exprString(loop.X))
			if definitelyNonNilReturn(pk, ret, stack) {
				r.Ok("C10-CYCLE-REJECTED", key, "leaves the loop only with a non-nil error", c.pos(ret.Pos()))
			} else {
				r.Bad("C10-CYCLE-REJECTED", key, "the check can leave the loop without an error before every element was visited: a PASTE behind it (a cycle through a later sibling) is never examined", c.pos(ret.Pos()))
			}
			return true
		})
	}
}

func (c *Ctx) ruleC10Undefined() {
	r := c.R
	r.Rule("C10-UNDEFINED-REJECTED", "in the expansion, a PASTE with an empty name and a name missing in the macro table both return a non-nil error", 2)
	f := c.pasteRoles().pasteDirective
	table := c.macroTableField()
	if f == nil || table == nil {
		r.Undecided("C10-UNDEFINED-REJECTED", "anchor", "processPasteDirective or macro table not found", "")
		return
	}
	// decided on the abstract evaluation of the handler (helpers inlined); the syntactic reading below is the fallback
	// when the evaluation cannot tell
	if missOK, emptyOK, detail, und := c.undefinedRejectedE8(); und == "" {
		if missOK {
			r.Ok("C10-UNDEFINED-REJECTED", "miss branch", "every path on which the name is missing in the macro table returns an error (abstract evaluation of the handler)", c.pos(f.Decl.Pos()))
		} else {
			r.Bad("C10-UNDEFINED-REJECTED", "miss branch", detail, c.pos(f.Decl.Pos()))
		}
		if emptyOK {
			r.Ok("C10-UNDEFINED-REJECTED", "empty name", "the table is only asked for a name found non-empty, and an empty name returns an error", c.pos(f.Decl.Pos()))
		} else {
			r.Bad("C10-UNDEFINED-REJECTED", "empty name", detail, c.pos(f.Decl.Pos()))
		}
		return
	}
	pk := f.Pkg
	// comma-ok lookup
	var okVar types.Object
	var lookup *ast.AssignStmt
	ast.Inspect(f.Decl.Body, func(n ast.Node) bool {
		if as, ok := n.(*ast.AssignStmt); ok && len(as.Lhs) == 2 && len(as.Rhs) == 1 {
			if b, _, isIdx := indexOn(pk, as.Rhs[0]); isIdx && fieldSel(pk, b) == table {
				if id, ok := as.Lhs[1].(*ast.Ident); ok {
					okVar = pk.TypesInfo.Defs[id]
					lookup = as
				}
			}
		}
		return true
	})
	if lookup == nil {
		r.Bad("C10-UNDEFINED-REJECTED", "table lookup", "processPasteDirective has no comma-ok lookup of the macro table", c.pos(f.Decl.Pos()))
		return
	}
	miss := false
	empty := false
	ast.Inspect(f.Decl.Body, func(n ast.Node) bool {
		ifs, ok := n.(*ast.IfStmt)
		if !ok {
			return true
		}
		if u, ok := ast.Unparen(ifs.Cond).(*ast.UnaryExpr); ok && u.Op == token.NOT {
			if id, ok := ast.Unparen(u.X).(*ast.Ident); ok && pk.TypesInfo.Uses[id] == okVar && returnsNonNilError(pk, ifs.Body.List) {
				miss = true
			}
		}
		if be, ok := ast.Unparen(ifs.Cond).(*ast.BinaryExpr); ok && be.Op == token.EQL {
			if s, ok := constString(pk, be.Y); ok && s == "" && returnsNonNilError(pk, ifs.Body.List) && ifs.Pos() < lookup.Pos() {
				empty = true
			}
		}
		return true
	})
	if miss {
		r.Ok("C10-UNDEFINED-REJECTED", "miss branch", "a name missing in the table returns an error", c.pos(lookup.Pos()))
	} else {
		r.Bad("C10-UNDEFINED-REJECTED", "miss branch", "the miss branch of the macro lookup does not return an error", c.pos(lookup.Pos()))
	}
	if empty {
		r.Ok("C10-UNDEFINED-REJECTED", "empty name", "an empty name returns an error before the lookup", c.pos(f.Decl.Pos()))
	} else {
		r.Bad("C10-UNDEFINED-REJECTED", "empty name", "an empty PASTE name is not rejected before the lookup", c.pos(f.Decl.Pos()))
	}
}

func (c *Ctx) ruleC10MacroRemoved() {
	r := c.R
	r.Rule("C10-MACRO-CONTRIBUTES-NOTHING", "collectMacro registers and removes every MACRO element from the directive list (index corrected), runs before processPaste, and collectPaths skips MACRO", 3)
	f := c.fn("core", "JApiCore.collectMacro")
	if f == nil {
		r.Undecided("C10-MACRO-CONTRIBUTES-NOTHING", "anchor", "collectMacro not found", "")
		return
	}
	pk := f.Pkg
	macroConst := c.enumConst("Macro")
	// form-independent: in the loop over the list, (1) the registration and the removal of the element are reached only
	// with "<element>.Type() == directive.Macro" established, and an element known to be a MACRO never reaches the end
	// of the round without both; (2) on every way round the loop the index goes up by one without a removal, or one
	// element is removed at the index and the index stays (nothing skipped, nothing visited twice)
	{
		typeM := c.P.LookupFunc("directive", "Directive.Type")
		var loop *ast.ForStmt
		ast.Inspect(f.Decl.Body, func(n ast.Node) bool {
			if fs, ok := n.(*ast.ForStmt); ok && loop == nil {
				loop = fs
			}
			return true
		})
		var lb *loopBalance
		if loop != nil {
			lb = balanceOfLoop(pk, f.Decl.Body, loop)
		}
		isMacro := func(cond ast.Expr, holds bool) bool {
			be, ok := ast.Unparen(cond).(*ast.BinaryExpr)
			if !ok || (be.Op != token.EQL && be.Op != token.NEQ) || macroConst == nil {
				return false
			}
			x, y := be.X, be.Y
			if constObj(pk, x) == macroConst {
				x, y = y, x
			}
			if constObj(pk, y) != macroConst {
				return false
			}
			tc, ok := unalias(f, x).(*ast.CallExpr)
			if !ok || typeM == nil || callee(pk, tc) != typeM {
				return false
			}
			return (be.Op == token.EQL) == holds
		}
		cf := c.cfgOf(f)
		var addCall, removal ast.Node
		ast.Inspect(f.Decl.Body, func(n ast.Node) bool {
			switch x := n.(type) {
			case *ast.CallExpr:
				if cal := callee(pk, x); cal != nil && cal.Name() == "addMacro" {
					addCall = x
				}
			case *ast.AssignStmt:
				if lb != nil && len(x.Lhs) == 1 && len(x.Rhs) == 1 && accessPath(pk, x.Lhs[0]) == lb.list && isRemovalAt(pk, x.Rhs[0], lb.list, lb.index) {
					removal = x
				}
			}
			return true
		})
		switch {
		case loop == nil || lb == nil:
			r.Bad("C10-MACRO-CONTRIBUTES-NOTHING", "removal", "collectMacro has no index loop over the directive list", c.pos(f.Decl.Pos()))
		case addCall == nil || removal == nil:
			r.Bad("C10-MACRO-CONTRIBUTES-NOTHING", "removal", fmt.Sprintf("registered=%v removed=%v: a MACRO definition must be put into the macro table and cut out of the directive list", addCall != nil, removal != nil), c.pos(loop.Pos()))
		case !cf.establishedAt(addCall, isMacro, nil) || !cf.establishedAt(removal, isMacro, nil):
			r.Bad("C10-MACRO-CONTRIBUTES-NOTHING", "removal", "the registration or the removal is reached for an element that is not known to be a MACRO definition", c.pos(loop.Pos()))
		case !cf.dominatedBy(removal, addCall):
			r.Bad("C10-MACRO-CONTRIBUTES-NOTHING", "removal", "an element can be cut out of the list without having been registered as a macro", c.pos(loop.Pos()))
		case lb.balanced() != "":
			r.Bad("C10-MACRO-CONTRIBUTES-NOTHING", "removal", "the walk over the list while elements are removed is off: "+lb.balanced(), c.pos(loop.Pos()))
		default:
			r.Ok("C10-MACRO-CONTRIBUTES-NOTHING", "removal", "MACRO elements - and only they - are registered and then cut out of the list; on every way round the loop the index advances by one or one element is removed and the index stays", c.pos(loop.Pos()))
		}
	}
	if cc := c.fn("core", "JApiCore.compileCore"); cc != nil {
		a := callsIn(pk, cc.Decl.Body, f.Obj)
		b := callsIn(pk, cc.Decl.Body, fnObj(c.pasteRoles().processPaste))
		if len(a) == 1 && len(b) == 1 && buildCFG(cc.Decl.Body).dominatedBy(b[0], a[0]) {
			r.Ok("C10-MACRO-CONTRIBUTES-NOTHING", "order", "collectMacro dominates processPaste in compileCore", c.pos(cc.Decl.Pos()))
		} else {
			r.Bad("C10-MACRO-CONTRIBUTES-NOTHING", "order", "collectMacro does not run before processPaste", c.pos(cc.Decl.Pos()))
		}
	}
	if cp := c.fn("core", "JApiCore.collectPaths"); cp != nil {
		// every call that hands an element of the list (or its children) to the receiver's collectors is reached only
		// with "<element>.Type() != directive.Macro" established, whatever the form of the test (case, if, continue)
		cf := buildCFG(cp.Decl.Body)
		typeM := c.P.LookupFunc("directive", "Directive.Type")
		n, bad := 0, 0
		ast.Inspect(cp.Decl.Body, func(nd ast.Node) bool {
			call, ok := nd.(*ast.CallExpr)
			if !ok {
				return true
			}
			cal := callee(cp.Pkg, call)
			if cal == nil || !c.P.IsLibPkg(cal.Pkg()) || cal.Pkg() != cp.Pkg.Types || len(call.Args) != 1 {
				return true
			}
			elem := ast.Unparen(call.Args[0])
			if sel, ok := elem.(*ast.SelectorExpr); ok && sel.Sel.Name == "Children" {
				elem = ast.Unparen(sel.X)
			}
			want := exprString(unalias(cp, elem))
			n++
			notMacro := func(cond ast.Expr, trueEdge bool) bool {
				be, ok := ast.Unparen(cond).(*ast.BinaryExpr)
				if !ok || (be.Op != token.EQL && be.Op != token.NEQ) {
					return false
				}
				x, y := be.X, be.Y
				if constObj(pk, x) == macroConst {
					x, y = y, x
				}
				if constObj(pk, y) != macroConst || macroConst == nil {
					return false
				}
				tc, ok := unalias(cp, x).(*ast.CallExpr)
				if !ok || callee(cp.Pkg, tc) != typeM || typeM == nil {
					return false
				}
				recv, ok := ast.Unparen(tc.Fun).(*ast.SelectorExpr)
				if !ok || exprString(unalias(cp, recv.X)) != want {
					return false
				}
				return (be.Op == token.NEQ) == trueEdge
			}
			if !cf.establishedAt(call, notMacro, nil) {
				bad++
				r.Bad("C10-MACRO-CONTRIBUTES-NOTHING", "collectPaths skips MACRO", "the path collector hands "+exprString(call.Args[0])+" to "+cal.Name()+" without having established that it is not a MACRO definition: it descends into MACRO definitions", c.pos(call.Pos()))
			}
			return true
		})
		if n == 0 {
			r.Bad("C10-MACRO-CONTRIBUTES-NOTHING", "collectPaths skips MACRO", "no collector call found in the path collector", c.pos(cp.Decl.Pos()))
		} else if bad == 0 {
			r.Ok("C10-MACRO-CONTRIBUTES-NOTHING", "collectPaths skips MACRO", fmt.Sprintf("%d collector calls, each reached only when the element is not a MACRO", n), c.pos(cp.Decl.Pos()))
		}
	}
}

// enumConst returns the directive.Enumeration constant with the given name.
func (c *Ctx) enumConst(name string) *types.Const {
	pk := c.P.Pkg("directive")
	if pk == nil {
		return nil
	}
	k, _ := pk.Types.Scope().Lookup(name).(*types.Const)
	return k
}

// ruleC10CopyReset checks the expansion step (also part of C11: the paste pass re-runs context resolution).
func (c *Ctx) ruleC10CopyReset() {
	r := c.R
	r.Rule("C10-COPY-RESET", "expansion hands processContext a copy whose Parent and Children are cleared; after the children of a directive with an explicit context were expanded the current context becomes the copy's parent (mirrors ')'); the context is reset to nil exactly once, before the expansion walk", 4)
	f := c.pasteRoles().perDirective
	if f == nil {
		r.Undecided("C10-COPY-RESET", "anchor", "processDirective not found", "")
		return
	}
	pk := f.Pkg
	where := c.pos(f.Decl.Pos())
	pc := c.P.LookupFunc("core", "JApiCore.processContext")
	// copy variable
	var copyVar types.Object
	var copyFn *types.Func
	ast.Inspect(f.Decl.Body, func(n ast.Node) bool {
		if as, ok := n.(*ast.AssignStmt); ok && len(as.Lhs) == 1 && len(as.Rhs) == 1 && as.Tok == token.DEFINE {
			if call, ok := ast.Unparen(as.Rhs[0]).(*ast.CallExpr); ok {
				if cal := callee(pk, call); cal != nil && namedType(pk.TypesInfo.TypeOf(as.Lhs[0])) == prog.ModulePath+"/directive.Directive" {
					if _, isPtr := pk.TypesInfo.TypeOf(as.Lhs[0]).(*types.Pointer); !isPtr {
						copyVar = pk.TypesInfo.Defs[as.Lhs[0].(*ast.Ident)]
						copyFn = cal
					}
				}
			}
		}
		return true
	})
	calls := callsIn(pk, f.Decl.Body, pc)
	passesCopy := false
	for _, call := range calls {
		if len(call.Args) >= 1 {
			if u, ok := ast.Unparen(call.Args[0]).(*ast.UnaryExpr); ok && u.Op == token.AND {
				if id, ok := ast.Unparen(u.X).(*ast.Ident); ok && pk.TypesInfo.Uses[id] == copyVar && copyVar != nil {
					passesCopy = true
				}
			}
		}
	}
	if passesCopy && len(calls) == 1 {
		r.Ok("C10-COPY-RESET", "copy passed", "processContext receives the address of a by-value copy made by "+copyFn.Name(), where)
	} else {
		r.Bad("C10-COPY-RESET", "copy passed", "processContext is not given a fresh copy of the directive during expansion (the macro tree itself would be re-linked)", where)
	}
	// the copy function clears Parent and Children
	if copyFn != nil {
		if cf := c.fnOf(copyFn); cf != nil {
			cleared := map[string]bool{}
			ast.Inspect(cf.Decl.Body, func(n ast.Node) bool {
				if as, ok := n.(*ast.AssignStmt); ok && len(as.Lhs) == 1 && len(as.Rhs) == 1 && isNil(cf.Pkg, as.Rhs[0]) {
					if fld := fieldSel(cf.Pkg, as.Lhs[0]); fld != nil {
						cleared[fld.Name()] = true
					}
				}
				return true
			})
			if cleared["Parent"] && cleared["Children"] {
				r.Ok("C10-COPY-RESET", "links cleared", copyFn.Name()+" sets Parent and Children to nil", c.pos(cf.Decl.Pos()))
			} else {
				r.Bad("C10-COPY-RESET", "links cleared", fmt.Sprintf("%s clears %v, expected Parent and Children", copyFn.Name(), keysOf(cleared)), c.pos(cf.Decl.Pos()))
			}
		} else {
			r.Undecided("C10-COPY-RESET", "links cleared", "copy function body not found", where)
		}
	}
	// restore on explicit context
	curField := c.coreField("currentContextDirective")
	okRestore := false
	var restoreIf *ast.IfStmt
	ast.Inspect(f.Decl.Body, func(n ast.Node) bool {
		if ifs, ok := n.(*ast.IfStmt); ok {
			if fld := fieldSel(pk, ifs.Cond); fld != nil && fld.Name() == "HasExplicitContext" {
				restoreIf = ifs
				for _, s := range ifs.Body.List {
					if as, ok := s.(*ast.AssignStmt); ok && len(as.Lhs) == 1 && len(as.Rhs) == 1 && fieldSel(pk, as.Lhs[0]) == curField && curField != nil {
						if rf := fieldSel(pk, as.Rhs[0]); rf != nil && rf.Name() == "Parent" {
							if id, ok := ast.Unparen(as.Rhs[0].(*ast.SelectorExpr).X).(*ast.Ident); ok && pk.TypesInfo.Uses[id] == copyVar {
								okRestore = true
							}
						}
					}
				}
			}
		}
		return true
	})
	switch {
	case restoreIf == nil:
		r.Bad("C10-COPY-RESET", "explicit context restore", "processDirective does not close an explicit context after expanding its children", where)
	case !okRestore:
		r.Bad("C10-COPY-RESET", "explicit context restore", "after an explicit context the current context is not set to the parent of the expanded copy: a silently closed implicit sibling context can be re-opened, or the context stays inside the parentheses", c.pos(restoreIf.Pos()))
	default:
		// must come after the children were expanded
		list := fnObj(c.pasteRoles().walk)
		kids := callsIn(pk, f.Decl.Body, list)
		if len(kids) >= 1 && kids[0].Pos() < restoreIf.Pos() {
			r.Ok("C10-COPY-RESET", "explicit context restore", "currentContextDirective = <copy>.Parent after the children were expanded", c.pos(restoreIf.Pos()))
		} else {
			r.Bad("C10-COPY-RESET", "explicit context restore", "the restore does not follow the expansion of the children", c.pos(restoreIf.Pos()))
		}
	}
	// nil reset exactly once, outside loops, in processPaste; no other store of the context field reachable from processPaste
	pp := c.pasteRoles().processPaste
	if pp == nil || curField == nil {
		r.Undecided("C10-COPY-RESET", "context reset", "processPaste or the context field not found", "")
		return
	}
	var stores []string
	resetOK := false
	for _, g := range c.reachableInPkg(pp) {
		inspectWithStack(g.Decl.Body, func(n ast.Node, stack []ast.Node) bool {
			as, ok := n.(*ast.AssignStmt)
			if !ok {
				return true
			}
			for i, l := range as.Lhs {
				if fieldSel(g.Pkg, l) != curField {
					continue
				}
				inLoop := false
				for _, s := range stack {
					switch s.(type) {
					case *ast.ForStmt, *ast.RangeStmt:
						inLoop = true
					}
				}
				desc := g.Obj.Name()
				if i < len(as.Rhs) && isNil(g.Pkg, as.Rhs[i]) {
					desc += ":nil"
					if g.Obj == pp.Obj && !inLoop {
						resetOK = true
					} else {
						desc += "(in loop or outside processPaste)"
						resetOK = false
						stores = append(stores, "BAD "+desc)
						continue
					}
				}
				stores = append(stores, desc)
			}
			return true
		})
	}
	sort.Strings(stores)
	bad := ""
	for _, s := range stores {
		if strings.HasPrefix(s, "BAD") {
			bad = s
		}
	}
	// stores of something other than the nil literal are moves of the context (placement, walk up, restore after an
	// explicit context): they are decided by C11-WALK-UP / C11-PLACEMENT and the restore clause above, wherever the
	// statement sits (processContext, processDirective or a helper of theirs)
	if resetOK && bad == "" {
		r.Ok("C10-COPY-RESET", "context reset", fmt.Sprintf("stores of the current context during expansion: %v", stores), c.pos(pp.Decl.Pos()))
	} else {
		r.Bad("C10-COPY-RESET", "context reset", fmt.Sprintf("the expansion resets or writes the current context elsewhere than once at its start (%s; stores: %v): a context left open by a pasted body is lost or leaked", bad, stores), c.pos(pp.Decl.Pos()))
	}
}

func keysOf(m map[string]bool) []string {
	var out []string
	for k := range m {
		out = append(out, k)
	}
	sort.Strings(out)
	return out
}

// coreField returns a field of core.JApiCore by name.
func (c *Ctx) coreField(name string) *types.Var {
	tn := c.P.LookupType("core", "JApiCore")
	if tn == nil {
		return nil
	}
	st, _ := tn.Type().Underlying().(*types.Struct)
	if st == nil {
		return nil
	}
	for i := 0; i < st.NumFields(); i++ {
		if st.Field(i).Name() == name {
			return st.Field(i)
		}
	}
	// renamed? found again by its type and the functions that use it (reference/anchors.json)
	if c.fieldMemo == nil {
		c.fieldMemo = map[string]*types.Var{}
	}
	if v, ok := c.fieldMemo[name]; ok {
		return v
	}
	c.fieldMemo[name] = c.renamedField("core", "JApiCore", name)
	return c.fieldMemo[name]
}

// pasteRoles finds the functions of the expansion pass by what they do, so that a rename does not lose them:
//
//	pasteDirective: looks a name up in the macro table and hands the entry's Children to the walk;
//	walk:           the function those Children are handed to (iterates a []*Directive);
//	perDirective:   the function that makes the copy (calls Directive.CopyWoParentAndChildren);
//	processPaste:   the function that resets the context cursor to nil and starts the walk on the scanned list.
//
// The names used on the pinned tree are tried first.
type pasteRoles struct{ pasteDirective, walk, perDirective, processPaste *Fn }

func (c *Ctx) pasteRoles() *pasteRoles {
	if c.pasteR != nil {
		return c.pasteR
	}
	pr := &pasteRoles{
		pasteDirective: c.fn("core", "JApiCore.processPasteDirective"),
		walk:           c.fn("core", "JApiCore.processPasteDirectiveList"),
		perDirective:   c.fn("core", "JApiCore.processDirective"),
		processPaste:   c.fn("core", "JApiCore.processPaste"),
	}
	c.pasteR = pr
	pk := c.P.Pkg("core")
	table := c.macroTableField()
	cur := c.coreField("currentContextDirective")
	if pk == nil {
		return pr
	}
	isDirList := func(t types.Type) bool {
		sl, ok := t.Underlying().(*types.Slice)
		return ok && namedType(sl.Elem()) == prog.ModulePath+"/directive.Directive"
	}
	for _, f := range c.libFns() {
		if f.Pkg != pk {
			continue
		}
		// perDirective
		if pr.perDirective == nil {
			ast.Inspect(f.Decl.Body, func(n ast.Node) bool {
				if call, ok := n.(*ast.CallExpr); ok {
					if cal := callee(pk, call); cal != nil && cal.Name() == "CopyWoParentAndChildren" {
						pr.perDirective = f
					}
				}
				return true
			})
		}
		// pasteDirective and walk
		if table != nil && (pr.pasteDirective == nil || pr.walk == nil) {
			entry := map[string]bool{}
			ast.Inspect(f.Decl.Body, func(n ast.Node) bool {
				if as, ok := n.(*ast.AssignStmt); ok && len(as.Rhs) == 1 {
					if b, _, isIdx := indexOn(pk, as.Rhs[0]); isIdx && fieldSel(pk, b) == table && len(as.Lhs) >= 1 {
						entry[accessPath(pk, as.Lhs[0])] = true
					}
				}
				return true
			})
			if len(entry) > 0 {
				ast.Inspect(f.Decl.Body, func(n ast.Node) bool {
					call, ok := n.(*ast.CallExpr)
					if !ok || len(call.Args) != 1 || !isDirList(pk.TypesInfo.TypeOf(call.Args[0])) {
						return true
					}
					g := c.fnOf(callee(pk, call))
					if g == nil || g.Pkg != pk {
						return true
					}
					ap := accessPath(pk, call.Args[0])
					for e := range entry {
						if strings.HasPrefix(ap, e+".") {
							// the call that is returned (the expansion), not the collection of rules before it
							if res := g.Obj.Type().(*types.Signature).Results(); res.Len() == 1 {
								calledFromG := false
								ast.Inspect(g.Decl.Body, func(m ast.Node) bool {
									if rs, isRange := m.(*ast.RangeStmt); isRange && isDirList(pk.TypesInfo.TypeOf(rs.X)) {
										calledFromG = true
									}
									if fs, isFor := m.(*ast.ForStmt); isFor && fs != nil {
										calledFromG = true
									}
									return true
								})
								reachesCopy := false
								for _, h := range c.reachableInPkg(g) {
									ast.Inspect(h.Decl.Body, func(m ast.Node) bool {
										if cc, isCall := m.(*ast.CallExpr); isCall {
											if cal := callee(pk, cc); cal != nil && cal.Name() == "CopyWoParentAndChildren" {
												reachesCopy = true
											}
										}
										return true
									})
								}
								if calledFromG && reachesCopy {
									if pr.pasteDirective == nil {
										pr.pasteDirective = f
									}
									if pr.walk == nil {
										pr.walk = g
									}
								}
							}
						}
					}
					return true
				})
			}
		}
	}
	// processPaste: assigns nil to the cursor and calls the walk
	if pr.processPaste == nil && cur != nil && pr.walk != nil {
		for _, f := range c.libFns() {
			if f.Pkg != pk {
				continue
			}
			resets := false
			ast.Inspect(f.Decl.Body, func(n ast.Node) bool {
				if as, ok := n.(*ast.AssignStmt); ok {
					for i, l := range as.Lhs {
						if fieldSel(pk, l) == cur && i < len(as.Rhs) && isNil(pk, as.Rhs[i]) {
							resets = true
						}
					}
				}
				return true
			})
			if resets && len(callsIn(pk, f.Decl.Body, pr.walk.Obj)) > 0 {
				pr.processPaste = f
			}
		}
	}
	return pr
}

func fnObj(f *Fn) *types.Func {
	if f == nil {
		return nil
	}
	return f.Obj
}

// ---------- the expansion walk treats every kind alike ----------

// ruleWalkEveryKind: a macro call stands for its body written in place, whatever directives the body is made of. The
// walk that copies the tree (the list walker and the per-directive step) is run abstractly once per directive kind,
// with every Type() of a directive bound to that kind: which library functions are called on the explored paths and
// how the function returns must be the same for all kinds but the one that the expansion replaces (PASTE).
func (c *Ctx) ruleWalkEveryKind(rule string) {
	r := c.R
	r.Rule(rule, "the expansion walk (list walker and per-directive step of the paste pass) run abstractly once per directive kind with every Type() bound to the kind: the set of functions called and the returns are the same for every kind except PASTE - a kind that the walk skips or treats apart no longer moves the context cursor as it did when the document was scanned, so what follows a pasted body is placed differently from what follows the body written in place", 2)
	pr := c.pasteRoles()
	enumT := c.directiveEnumType()
	if pr.walk == nil || pr.perDirective == nil || enumT == nil {
		r.Undecided(rule, "anchor", "list walker / per-directive step of the paste pass not found", "")
		return
	}
	consts := enumConstants(enumT)
	if len(consts) < 20 {
		r.Undecided(rule, "enumeration", fmt.Sprintf("%d constants of the directive enumeration found", len(consts)), "")
		return
	}
	paste := c.enumConst("Paste")
	fns := []*Fn{pr.walk}
	if pr.perDirective != pr.walk {
		fns = append(fns, pr.perDirective)
	}
	for _, h := range fns {
		groups := map[string][]string{}
		for _, k := range consts {
			if paste != nil && k == paste {
				continue
			}
			groups[c.kindSignature(h, enumT, k)] = append(groups[c.kindSignature(h, enumT, k)], k.Name())
		}
		if len(groups) == 1 {
			for sig := range groups {
				r.Ok(rule, h.Name(), fmt.Sprintf("the same for all %d kinds other than PASTE: %.200s", len(consts)-1, sig), c.pos(h.Decl.Pos()))
			}
			continue
		}
		norm := ""
		for sig, ks := range groups {
			if norm == "" || len(ks) > len(groups[norm]) || (len(ks) == len(groups[norm]) && sig < norm) {
				norm = sig
			}
		}
		var sigs []string
		for sig := range groups {
			if sig != norm {
				sigs = append(sigs, sig)
			}
		}
		sort.Strings(sigs)
		for _, sig := range sigs {
			ks := groups[sig]
			sort.Strings(ks)
			r.Bad(rule, h.Name()+" | kinds "+strings.Join(ks, ","), fmt.Sprintf("for these kinds the walk does {%.200s}, for the other %d kinds {%.200s}", sig, len(groups[norm]), norm), c.pos(h.Decl.Pos()))
		}
	}
}

// kindSignature: what the abstract run of h does when every Type() of a directive is the constant k.
func (c *Ctx) kindSignature(h *Fn, enumT types.Type, k *types.Const) string {
	return c.kindSignatureWith(h, enumT, k, nil)
}

// kindSignatureWith: kindSignature with a labelling of the returns of the caller's choice.
func (c *Ctx) kindSignatureWith(h *Fn, enumT types.Type, k *types.Const, label func(f *Fn, e ast.Expr) string) string {
	env := &constEnv{c: c, vars: map[types.Object]constant.Value{}}
	env.leaf = func(f *Fn, e ast.Expr) (constant.Value, bool) {
		call, ok := e.(*ast.CallExpr)
		if !ok || len(call.Args) != 0 {
			return nil, false
		}
		if tv, has := f.Pkg.TypesInfo.Types[call]; has && tv.Type != nil && types.Identical(tv.Type, enumT) {
			if cal := callee(f.Pkg, call); cal != nil && cal.Type().(*types.Signature).Recv() != nil {
				return k.Val(), true
			}
		}
		return nil, false
	}
	env.retLabel = func(f *Fn, e ast.Expr) string {
		if label != nil {
			return label(f, e)
		}
		if isNil(f.Pkg, e) {
			return "return nil"
		}
		return "return error"
	}
	called := map[string]bool{}
	env.visit = func(f *Fn, n ast.Node) {
		ast.Inspect(n, func(m ast.Node) bool {
			if _, isLit := m.(*ast.FuncLit); isLit {
				return false
			}
			if call, ok := m.(*ast.CallExpr); ok {
				if cal := callee(f.Pkg, call); cal != nil && cal.Pkg() != nil && strings.HasPrefix(cal.Pkg().Path(), prog.ModulePath) {
					if tv, has := f.Pkg.TypesInfo.Types[call]; !(has && tv.Type != nil && types.Identical(tv.Type, enumT)) {
						called["calls "+prog.FuncName(cal)] = true
					}
				}
			}
			return true
		})
	}
	outs := map[string]bool{}
	env.evalBody(h, h.Decl.Body.List, outs, 0)
	var ks []string
	for o := range outs {
		ks = append(ks, o)
	}
	for o := range called {
		ks = append(ks, o)
	}
	sort.Strings(ks)
	return strings.Join(ks, "; ")
}

// ---------- directives are not written after the tree is built ----------

// ruleDirectivesReadOnlyInBuild: when the catalog is built, the directive tree is final. The copies that the expansion
// of PASTE makes share the parameter maps (and the body coordinates) of the macro's directives, so a handler that
// writes into "its" directive - sets a parameter, an annotation - writes into every other copy of the same macro
// directive as well: the second call of a macro meets a directive that the first call has changed.
func (c *Ctx) ruleDirectivesReadOnlyInBuild(rule string) {
	r := c.R
	r.Rule(rule, "the handlers of the dispatch table and everything they reach in the library never write a directive: no call of a pointer-receiver method of directive.Directive (SetNamedParameter, AppendUnnamedParameter, AppendParameter, AppendChild) and no assignment to a field of a Directive - pasted copies of one macro directive share their parameter maps, so a write made for one call of a macro is seen by the next", 1)
	disp := c.dispatchTable()
	if len(disp) < 10 {
		r.Undecided(rule, "anchor", "dispatch table not found", "")
		return
	}
	dirT := prog.ModulePath + "/directive.Directive"
	seen := map[*types.Func]bool{}
	var fns []*Fn
	var kinds []string
	for k := range disp {
		kinds = append(kinds, k)
	}
	sort.Strings(kinds)
	for _, k := range kinds {
		if h := c.fnOf(disp[k]); h != nil {
			for _, g := range c.reachableAcrossLib(h) {
				if !seen[g.Obj] && g.Pkg.PkgPath != prog.ModulePath+"/directive" {
					seen[g.Obj] = true
					fns = append(fns, g)
				}
			}
		}
	}
	n := 0
	for _, f := range fns {
		ast.Inspect(f.Decl.Body, func(nd ast.Node) bool {
			switch x := nd.(type) {
			case *ast.CallExpr:
				cal := callee(f.Pkg, x)
				if cal == nil {
					return true
				}
				sig := cal.Type().(*types.Signature)
				if sig.Recv() == nil {
					return true
				}
				if _, isPtr := sig.Recv().Type().(*types.Pointer); isPtr && namedType(sig.Recv().Type()) == dirT {
					n++
					r.Bad(rule, f.Name()+" | "+exprString(x.Fun), "a directive is written while the catalog is built ("+cal.Name()+"): the copies that PASTE makes of one macro directive share their parameter maps, so the next call of the macro sees the change (and a second build pass would too)", c.pos(x.Pos()))
				}
			case *ast.AssignStmt:
				for _, l := range x.Lhs {
					sel, ok := ast.Unparen(l).(*ast.SelectorExpr)
					if !ok {
						continue
					}
					if fv := fieldSel(f.Pkg, sel); fv != nil && namedType(f.Pkg.TypesInfo.TypeOf(sel.X)) == dirT {
						// a field of a local copy (a value of type Directive declared in the function) is the function's own
						if id, isId := ast.Unparen(sel.X).(*ast.Ident); isId {
							if o, isVar := f.Pkg.TypesInfo.Uses[id].(*types.Var); isVar && paramIndexOf(f, id) < 0 {
								if _, isPtr := o.Type().(*types.Pointer); !isPtr {
									continue
								}
							}
						}
						n++
						r.Bad(rule, f.Name()+" | "+exprString(l)+" =", "a field of a directive is assigned while the catalog is built: the directive tree is shared by everything that reads it afterwards (and, through the shared maps and coordinates, by the other copies of a pasted macro)", c.pos(x.Pos()))
					}
				}
			}
			return true
		})
	}
	if n == 0 {
		r.Ok(rule, "handlers", fmt.Sprintf("%d functions reachable from the handlers: none writes a directive", len(fns)), "")
	}
}
