package rules

// Engine E5: write effects over SSA. For every function the set of parameters (receiver included) and
// captured variables whose reachable memory it may write is computed to a fixpoint; at call sites the
// effect is mapped to the argument's origin (fresh allocation, own parameter, or pre-existing object).
// Calls of (*sync.Once).Do / ErrOnce.Do are cut: once-only initialisation is judged by its own rules.

import (
	"fmt"
	"go/token"
	"go/types"
	"sort"
	"strings"

	"golang.org/x/tools/go/ssa"

	"jsverif/internal/prog"
)

type originKind int

const (
	oFresh originKind = iota
	oParam
	oFreeVar
	oGlobal
	oExisting // result of a call that hands out an existing object, or anything unknown
)

type origin struct {
	kind originKind
	idx  int
	desc string
}

type writeSite struct {
	fn   *ssa.Function
	pos  token.Pos
	what string // description of what is written
	typ  string // named struct type written (pkgpath.Name) or ""
	org  origin
}

type effects struct {
	c        *Ctx
	params   map[*ssa.Function]map[int]string // param index -> example description
	freevars map[*ssa.Function]map[int]string
	direct   map[*ssa.Function][]writeSite // writes to existing objects / globals found directly in the function
	fresh    map[*ssa.Function]int         // 0 unknown, 1 returns fresh, 2 not
	fns      []*ssa.Function
	// deep: the write through the parameter goes through at least one pointer loaded from memory (p.f.g = .., not
	// p.f = ..): when the argument is a fresh copy of an existing value, such a write lands in what the copy shares
	deep map[*ssa.Function]map[int]bool
}

// allocBase strips field and element address computations down to a local cell.
func allocBase(v ssa.Value) *ssa.Alloc {
	for i := 0; i < 20; i++ {
		switch x := v.(type) {
		case *ssa.Alloc:
			return x
		case *ssa.FieldAddr:
			v = x.X
		case *ssa.IndexAddr:
			v = x.X
		default:
			return nil
		}
	}
	return nil
}

// passesLoad: the address is reached through a pointer that was loaded from memory other than a local cell.
func (e *effects) passesLoad(v ssa.Value, depth int) bool {
	if depth > 40 {
		return true
	}
	switch x := v.(type) {
	case *ssa.FieldAddr:
		return e.passesLoad(x.X, depth+1)
	case *ssa.IndexAddr:
		return e.passesLoad(x.X, depth+1)
	case *ssa.Field:
		return e.passesLoad(x.X, depth+1)
	case *ssa.Index:
		return e.passesLoad(x.X, depth+1)
	case *ssa.Slice:
		return e.passesLoad(x.X, depth+1)
	case *ssa.ChangeType:
		return e.passesLoad(x.X, depth+1)
	case *ssa.Convert:
		return e.passesLoad(x.X, depth+1)
	case *ssa.ChangeInterface:
		return e.passesLoad(x.X, depth+1)
	case *ssa.MakeInterface:
		return e.passesLoad(x.X, depth+1)
	case *ssa.TypeAssert:
		return e.passesLoad(x.X, depth+1)
	case *ssa.Extract:
		return e.passesLoad(x.Tuple, depth+1)
	case *ssa.Phi:
		for _, ed := range x.Edges {
			if ed != v && e.passesLoad(ed, depth+1) {
				return true
			}
		}
		return false
	case *ssa.UnOp:
		if x.Op == token.MUL {
			if a, ok := x.X.(*ssa.Alloc); ok {
				// a spilled local: look at what was stored
				if refs := a.Referrers(); refs != nil {
					for _, r := range *refs {
						if st, ok := r.(*ssa.Store); ok && st.Addr == a && e.passesLoad(st.Val, depth+1) {
							return true
						}
					}
				}
				return false
			}
			return true
		}
	case *ssa.Lookup:
		return true
	case *ssa.Next:
		return true
	case *ssa.Call:
		if b, ok := x.Call.Value.(*ssa.Builtin); ok && b.Name() == "append" {
			return e.passesLoad(x.Call.Args[0], depth+1)
		}
	}
	return false
}

// allocContent: the worst origin of anything stored into the local cell or into a field or element of it.
func (e *effects) allocContent(a *ssa.Alloc, depth int) origin {
	worst := origin{kind: oFresh}
	var visit func(v ssa.Value, d int)
	visit = func(v ssa.Value, d int) {
		refs := v.Referrers()
		if refs == nil || d > 6 {
			return
		}
		for _, r := range *refs {
			switch x := r.(type) {
			case *ssa.Store:
				if x.Addr == v {
					if o := e.rootOf(x.Val, depth+1); o.kind > worst.kind {
						worst = o
					}
				}
			case *ssa.FieldAddr:
				if x.X == v {
					visit(x, d+1)
				}
			case *ssa.IndexAddr:
				if x.X == v {
					visit(x, d+1)
				}
			}
		}
	}
	visit(a, 0)
	return worst
}

func isOnceDo(f *ssa.Function) bool {
	if f == nil || f.Signature.Recv() == nil || f.Name() != "Do" {
		return false
	}
	n := namedType(f.Signature.Recv().Type())
	return n == "sync.Once" || strings.HasSuffix(n, "/sync.ErrOnce") || strings.HasSuffix(n, "/sync.ErrOnceWithValue") || strings.Contains(n, "sync.ErrOnce")
}

// rootOf follows address computations and loads back to where the memory comes from.
func (e *effects) rootOf(v ssa.Value, depth int) origin {
	if depth > 40 {
		return origin{kind: oExisting, desc: "deep"}
	}
	switch x := v.(type) {
	case *ssa.Alloc:
		return origin{kind: oFresh}
	case *ssa.MakeSlice, *ssa.MakeMap, *ssa.MakeChan, *ssa.MakeClosure:
		return origin{kind: oFresh}
	case *ssa.Const:
		return origin{kind: oFresh}
	case *ssa.Parameter:
		for i, p := range x.Parent().Params {
			if p == x {
				return origin{kind: oParam, idx: i, desc: x.Name()}
			}
		}
	case *ssa.FreeVar:
		for i, p := range x.Parent().FreeVars {
			if p == x {
				return origin{kind: oFreeVar, idx: i, desc: x.Name()}
			}
		}
	case *ssa.Global:
		return origin{kind: oGlobal, desc: x.Name()}
	case *ssa.FieldAddr:
		return e.rootOf(x.X, depth+1)
	case *ssa.IndexAddr:
		return e.rootOf(x.X, depth+1)
	case *ssa.Field:
		return e.rootOf(x.X, depth+1)
	case *ssa.Index:
		return e.rootOf(x.X, depth+1)
	case *ssa.Slice:
		return e.rootOf(x.X, depth+1)
	case *ssa.UnOp:
		if x.Op == token.MUL {
			// load: the pointer read from memory; if that memory is a local cell, look at what was stored there
			if a, ok := x.X.(*ssa.Alloc); ok {
				return e.cellContent(a, depth+1)
			}
			if a := allocBase(x.X); a != nil {
				// a pointer read from a field or element of a local value: what was put into that value (a copy of an
				// existing struct shares everything its pointers lead to)
				return e.allocContent(a, depth+1)
			}
			o := e.rootOf(x.X, depth+1)
			if ia, ok := x.X.(*ssa.IndexAddr); ok && pointerLike(x.Type()) && (o.kind == oFresh || o.kind == oFreeVar) {
				// a pointer read out of a slice that was made here: the memory behind it is that of the values put
				// into slices of this element type in this function (element stores, the argument packs of append)
				if fn := ia.Parent(); fn != nil {
					for _, b := range fn.Blocks {
						for _, in := range b.Instrs {
							st, ok := in.(*ssa.Store)
							if !ok {
								continue
							}
							if _, ok := st.Addr.(*ssa.IndexAddr); !ok || !types.Identical(st.Val.Type(), x.Type()) {
								continue
							}
							if o2 := e.rootOf(st.Val, depth+1); o2.kind != oFresh {
								o = o2
							}
						}
					}
				}
			}
			return o
		}
		return origin{kind: oFresh}
	case *ssa.ChangeType:
		return e.rootOf(x.X, depth+1)
	case *ssa.Convert:
		return e.rootOf(x.X, depth+1)
	case *ssa.ChangeInterface:
		return e.rootOf(x.X, depth+1)
	case *ssa.MakeInterface:
		return e.rootOf(x.X, depth+1)
	case *ssa.TypeAssert:
		return e.rootOf(x.X, depth+1)
	case *ssa.Extract:
		return e.rootOf(x.Tuple, depth+1)
	case *ssa.Phi:
		worst := origin{kind: oFresh}
		for _, ed := range x.Edges {
			if ed == v {
				continue
			}
			o := e.rootOf(ed, depth+1)
			if o.kind > worst.kind {
				worst = o
			}
		}
		return worst
	case *ssa.Lookup, *ssa.Next, *ssa.Range:
		switch y := x.(type) {
		case *ssa.Lookup:
			o := e.rootOf(y.X, depth+1)
			// a pointer read out of a map is what was put into the map, wherever the map itself was made: the
			// updates of maps of the same type in this function say what that is
			if fn := y.Parent(); fn != nil && pointerLike(elemOfMap(y.X.Type())) {
				for _, b := range fn.Blocks {
					for _, in := range b.Instrs {
						if mu, ok := in.(*ssa.MapUpdate); ok && types.Identical(mu.Map.Type(), y.X.Type()) {
							// the memory behind the pointer is that of the stored value, not that of the map: a
							// map made here (or captured from the function that made it) does not make it fresh
							if o2 := e.rootOf(mu.Value, depth+1); o2.kind != oFresh && (o.kind == oFresh || o.kind == oFreeVar || o2.kind > o.kind) {
								o = o2
							}
						}
					}
				}
			}
			return o
		case *ssa.Next:
			return e.rootOf(y.Iter, depth+1)
		case *ssa.Range:
			return e.rootOf(y.X, depth+1)
		}
	case *ssa.Call:
		if b, ok := x.Call.Value.(*ssa.Builtin); ok && b.Name() == "append" {
			return e.rootOf(x.Call.Args[0], depth+1)
		}
		if callee := x.Call.StaticCallee(); callee != nil {
			if e.returnsFresh(callee) {
				return origin{kind: oFresh}
			}
			// value-returning accessors of a parameter hand out what the parameter holds
			return origin{kind: oExisting, desc: "result of " + prog.SSAName(callee)}
		}
		return origin{kind: oExisting, desc: "result of a dynamic call"}
	case *ssa.BinOp:
		return origin{kind: oFresh}
	}
	return origin{kind: oExisting, desc: fmt.Sprintf("%T", v)}
}

// cellContent: worst origin of the values stored into a local cell.
func (e *effects) cellContent(a *ssa.Alloc, depth int) origin {
	worst := origin{kind: oFresh}
	refs := a.Referrers()
	if refs == nil {
		return worst
	}
	for _, r := range *refs {
		if st, ok := r.(*ssa.Store); ok && st.Addr == a {
			o := e.rootOf(st.Val, depth+1)
			if o.kind > worst.kind {
				worst = o
			}
		}
	}
	return worst
}

// returnsFresh: every returned pointer-like value of the function is freshly allocated inside it.
func (e *effects) returnsFresh(f *ssa.Function) bool {
	if v, ok := e.fresh[f]; ok {
		return v == 1
	}
	e.fresh[f] = 2 // recursion: pessimistic
	if len(f.Blocks) == 0 {
		// no body (dependency without syntax / stdlib): constructors of the standard library and the dependency
		name := f.Name()
		ok := strings.HasPrefix(name, "New") || strings.HasPrefix(name, "new") || strings.HasPrefix(name, "Make")
		if ok {
			e.fresh[f] = 1
		}
		return ok
	}
	ok := true
	for _, b := range f.Blocks {
		for _, ins := range b.Instrs {
			ret, isRet := ins.(*ssa.Return)
			if !isRet {
				continue
			}
			for _, rv := range ret.Results {
				switch rv.Type().Underlying().(type) {
				case *types.Pointer, *types.Slice, *types.Map, *types.Interface:
					if c, isC := rv.(*ssa.Const); isC && c.IsNil() {
						continue
					}
					if o := e.rootOf(rv, 0); o.kind != oFresh {
						ok = false
					}
				}
			}
		}
	}
	if ok {
		e.fresh[f] = 1
	}
	return ok
}

func writtenType(addr ssa.Value) string {
	switch x := addr.(type) {
	case *ssa.FieldAddr:
		if p, ok := x.X.Type().Underlying().(*types.Pointer); ok {
			return namedType(p.Elem())
		}
	case *ssa.IndexAddr:
		return writtenTypeOfContainer(x.X)
	}
	return ""
}

func writtenTypeOfContainer(v ssa.Value) string {
	switch x := v.(type) {
	case *ssa.UnOp:
		if fa, ok := x.X.(*ssa.FieldAddr); ok {
			return writtenType(fa)
		}
	case *ssa.Slice:
		return writtenTypeOfContainer(x.X)
	case *ssa.Field:
		return namedType(x.X.Type())
	}
	return ""
}

func (c *Ctx) computeEffects(fns map[*ssa.Function]bool) *effects {
	e := &effects{c: c, params: map[*ssa.Function]map[int]string{}, freevars: map[*ssa.Function]map[int]string{},
		direct: map[*ssa.Function][]writeSite{}, fresh: map[*ssa.Function]int{}, deep: map[*ssa.Function]map[int]bool{}}
	markDeep := func(f *ssa.Function, idx int) bool {
		if e.deep[f] == nil {
			e.deep[f] = map[int]bool{}
		}
		if e.deep[f][idx] {
			return false
		}
		e.deep[f][idx] = true
		return true
	}
	for f := range fns {
		e.fns = append(e.fns, f)
	}
	sort.Slice(e.fns, func(i, j int) bool { return prog.SSAName(e.fns[i]) < prog.SSAName(e.fns[j]) })
	cg := c.P.CallGraph()
	note := func(f *ssa.Function, o origin, pos token.Pos, what, typ string) bool {
		switch o.kind {
		case oFresh:
			return false
		case oParam:
			if e.params[f] == nil {
				e.params[f] = map[int]string{}
			}
			if _, ok := e.params[f][o.idx]; !ok {
				e.params[f][o.idx] = what
				return true
			}
			return false
		case oFreeVar:
			if e.freevars[f] == nil {
				e.freevars[f] = map[int]string{}
			}
			if _, ok := e.freevars[f][o.idx]; !ok {
				e.freevars[f][o.idx] = what
				return true
			}
			return false
		default:
			for _, w := range e.direct[f] {
				if w.pos == pos && w.what == what {
					return false
				}
			}
			e.direct[f] = append(e.direct[f], writeSite{f, pos, what, typ, o})
			return false
		}
	}
	changed := true
	for iter := 0; changed && iter < 30; iter++ {
		changed = false
		for _, f := range e.fns {
			for _, b := range f.Blocks {
				for _, ins := range b.Instrs {
					switch x := ins.(type) {
					case *ssa.Store:
						if _, isAlloc := x.Addr.(*ssa.Alloc); isAlloc {
							continue
						}
						o := e.rootOf(x.Addr, 0)
						if note(f, o, x.Pos(), "store to "+describeAddr(x.Addr), writtenType(x.Addr)) {
							changed = true
						}
						if o.kind == oParam && e.passesLoad(x.Addr, 0) && markDeep(f, o.idx) {
							changed = true
						}
					case *ssa.MapUpdate:
						o := e.rootOf(x.Map, 0)
						if note(f, o, x.Pos(), "map update", writtenTypeOfContainer(x.Map)) {
							changed = true
						}
					case ssa.CallInstruction:
						cc := x.Common()
						if b, ok := cc.Value.(*ssa.Builtin); ok {
							if b.Name() == "append" && len(cc.Args) > 0 {
								// append may write into the backing array of its first argument
								o := e.rootOf(cc.Args[0], 0)
								if o.kind != oFresh {
									// only in-place reuse is certain to write: x[:0] / x[:k] of an existing slice
									if sl := derivesFromReslice(cc.Args[0], 0); sl != nil {
										et := ""
										if st, ok := sl.X.Type().Underlying().(*types.Slice); ok {
											et = namedType(st.Elem())
										}
										if note(f, o, x.Pos(), "append into a re-sliced existing slice (in-place filter), elements field of "+et, et) {
											changed = true
										}
									}
								}
							}
							if (b.Name() == "delete" || b.Name() == "clear" || b.Name() == "copy") && len(cc.Args) > 0 {
								o := e.rootOf(cc.Args[0], 0)
								if note(f, o, x.Pos(), b.Name()+" on", writtenTypeOfContainer(cc.Args[0])) {
									changed = true
								}
							}
							continue
						}
						// standard-library functions that reorder or overwrite the elements of their first argument
						if sc := cc.StaticCallee(); sc != nil && externalMutators[sc.String()] && len(cc.Args) > 0 {
							o := e.rootOf(cc.Args[0], 0)
							et := writtenTypeOfContainer(cc.Args[0])
							var sliceV ssa.Value = cc.Args[0]
							if mi, ok := cc.Args[0].(*ssa.MakeInterface); ok {
								sliceV = mi.X
								et = writtenTypeOfContainer(mi.X)
							}
							if et == "" {
								// the elements themselves are what is written: name them by their type
								if st, ok := sliceV.Type().Underlying().(*types.Slice); ok {
									et = namedType(st.Elem())
								}
							}
							if note(f, o, x.Pos(), sc.String()+" reorders the elements of a slice in place, field of "+et, et) {
								changed = true
							}
						}
						// callees
						var callees []*ssa.Function
						if sc := cc.StaticCallee(); sc != nil {
							callees = []*ssa.Function{sc}
						} else if n := cg.Nodes[f]; n != nil {
							for _, ed := range n.Out {
								if ed.Site == x && ed.Callee.Func != nil {
									callees = append(callees, ed.Callee.Func)
								}
							}
						}
						for _, g := range callees {
							if isOnceDo(g) {
								continue
							}
							args := cc.Args
							if cc.IsInvoke() {
								args = append([]ssa.Value{cc.Value}, cc.Args...)
							}
							for idx, what := range e.params[g] {
								if idx >= len(args) {
									continue
								}
								o := e.rootOf(args[idx], 0)
								if note(f, o, x.Pos(), what+" (via "+prog.SSAName(g)+")", typeOfWhat(what)) {
									changed = true
								}
								if o.kind == oParam && (e.deep[g][idx] || e.passesLoad(args[idx], 0)) && markDeep(f, o.idx) {
									changed = true
								}
								if o.kind == oFresh && e.deep[g][idx] {
									// the callee writes through pointers it finds in the argument: a fresh cell that holds
									// a copy of an existing value shares those pointers with it
									if a := allocBase(args[idx]); a != nil {
										if o2 := e.allocContent(a, 0); o2.kind != oFresh {
											if note(f, o2, x.Pos(), what+" (via "+prog.SSAName(g)+", through the pointers of a copied value)", typeOfWhat(what)) {
												changed = true
											}
											if o2.kind == oParam && markDeep(f, o2.idx) {
												changed = true
											}
										}
									}
								}
							}
							// closure passed directly: its free-variable effects apply to the bindings
						}
						for _, a := range cc.Args {
							if mc, ok := a.(*ssa.MakeClosure); ok {
								cl := mc.Fn.(*ssa.Function)
								for idx, what := range e.freevars[cl] {
									if idx < len(mc.Bindings) {
										o := e.rootOf(mc.Bindings[idx], 0)
										if note(f, o, x.Pos(), what+" (via closure)", typeOfWhat(what)) {
											changed = true
										}
									}
								}
							}
						}
					}
				}
			}
		}
	}
	return e
}

// externalMutators: functions outside the module that write into (the backing array of) their first argument.
var externalMutators = map[string]bool{
	"sort.Slice": true, "sort.SliceStable": true, "sort.Sort": true, "sort.Stable": true, "sort.Strings": true, "sort.Ints": true,
	"sort.Float64s": true, "slices.Sort": true, "slices.SortFunc": true, "slices.SortStableFunc": true, "slices.Reverse": true,
	"math/rand.Shuffle": true,
}

// derivesFromReslice: the value is x[:k] of something, possibly carried round a loop through phis and appends.
func derivesFromReslice(v ssa.Value, depth int) *ssa.Slice {
	if depth > 6 {
		return nil
	}
	switch x := v.(type) {
	case *ssa.Slice:
		if x.High != nil {
			return x
		}
		return derivesFromReslice(x.X, depth+1)
	case *ssa.Phi:
		for _, ed := range x.Edges {
			if s := derivesFromReslice(ed, depth+1); s != nil {
				return s
			}
		}
	case *ssa.Call:
		if b, ok := x.Call.Value.(*ssa.Builtin); ok && b.Name() == "append" {
			return derivesFromReslice(x.Call.Args[0], depth+1)
		}
	}
	return nil
}

func typeOfWhat(what string) string {
	if i := strings.Index(what, "field of "); i >= 0 {
		s := what[i+len("field of "):]
		if j := strings.IndexAny(s, " ("); j >= 0 {
			s = s[:j]
		}
		return s
	}
	return ""
}

func describeAddr(a ssa.Value) string {
	switch x := a.(type) {
	case *ssa.FieldAddr:
		if p, ok := x.X.Type().Underlying().(*types.Pointer); ok {
			if st, ok := p.Elem().Underlying().(*types.Struct); ok {
				return "field " + st.Field(x.Field).Name() + " field of " + namedType(p.Elem())
			}
		}
	case *ssa.IndexAddr:
		return "an element, field of " + writtenTypeOfContainer(x.X)
	}
	return "memory"
}

func modelType(t string) bool {
	for _, p := range []string{"/catalog.", "/core.", "/directive.", "/scanner.", "/jerr."} {
		if strings.Contains(t, "jsight-api-core"+p) {
			return true
		}
	}
	return false
}


func elemOfMap(t types.Type) types.Type {
	if m, ok := t.Underlying().(*types.Map); ok {
		return m.Elem()
	}
	return nil
}

func pointerLike(t types.Type) bool {
	if t == nil {
		return false
	}
	switch t.Underlying().(type) {
	case *types.Pointer, *types.Interface, *types.Slice, *types.Map:
		return true
	}
	return false
}
