package rules

import (
	"encoding/json"
	"fmt"
	"go/ast"
	"go/token"
	"go/types"
	"os"
	"path/filepath"
	"reflect"
	"sort"
	"strings"

	"jsverif/internal/prog"
)

// ---------- JDoc shape: json keys of the catalog model (writer's table vs reference) ----------

type shapeRef struct {
	Comment string                       `json:"_comment"`
	Types   map[string]map[string]string `json:"types"` // type or "<Type>.MarshalJSON" -> key -> required|optional
	Consts  map[string]string            `json:"constants"`
}

// extractShapes reads the json struct tags of every struct type of package catalog (named types and the anonymous
// `data` structs inside MarshalJSON methods).
func (c *Ctx) extractShapes() map[string]map[string]string {
	out := map[string]map[string]string{}
	pk := c.P.Pkg("catalog")
	if pk == nil {
		return out
	}
	tags := func(st *types.Struct) map[string]string {
		m := map[string]string{}
		for i := 0; i < st.NumFields(); i++ {
			tag := reflect.StructTag(st.Tag(i)).Get("json")
			if tag == "" || tag == "-" {
				continue
			}
			parts := strings.Split(tag, ",")
			kind := "required"
			for _, p := range parts[1:] {
				if p == "omitempty" {
					kind = "optional"
				}
			}
			if parts[0] != "" {
				m[parts[0]] = kind
			}
		}
		return m
	}
	scope := pk.Types.Scope()
	for _, n := range scope.Names() {
		tn, ok := scope.Lookup(n).(*types.TypeName)
		if !ok {
			continue
		}
		if st, ok := tn.Type().Underlying().(*types.Struct); ok {
			if m := tags(st); len(m) > 0 {
				out[n] = m
			}
		}
	}
	for _, f := range c.libFns() {
		if f.Pkg != pk || f.Obj.Name() != "MarshalJSON" {
			continue
		}
		ast.Inspect(f.Decl.Body, func(nd ast.Node) bool {
			if stx, ok := nd.(*ast.StructType); ok {
				if t, ok := pk.TypesInfo.Types[stx]; ok {
					if st, ok := t.Type.Underlying().(*types.Struct); ok {
						if m := tags(st); len(m) > 0 {
							out[recvName(f.Obj)+".MarshalJSON"] = m
						}
					}
				}
			}
			return true
		})
	}
	return out
}

func loadShapeRef() (*shapeRef, error) {
	dir := os.Getenv("VERIF_DIR")
	if dir == "" {
		dir = "/verif"
	}
	b, err := os.ReadFile(filepath.Join(dir, "tools", "reference", "jdoc_shape.json"))
	if err != nil {
		return nil, err
	}
	var r shapeRef
	if err := json.Unmarshal(b, &r); err != nil {
		return nil, err
	}
	return &r, nil
}

func (c *Ctx) ruleShapeTags() {
	r := c.R
	r.Rule("C04-SHAPE-KEYS", "the JSON keys that the catalog model can emit (json struct tags of package catalog's types and of the anonymous structs inside its MarshalJSON methods), with required/optional (omitempty), equal the frozen JDoc Exchange 2.0.0 reference table; the version constant is \"2.0.0\"", 20)
	ref, err := loadShapeRef()
	if err != nil {
		r.Undecided("C04-SHAPE-KEYS", "reference", "cannot load reference/jdoc_shape.json: "+err.Error(), "")
		return
	}
	got := c.extractShapes()
	var names []string
	for n := range ref.Types {
		names = append(names, n)
	}
	sort.Strings(names)
	for _, n := range names {
		want := ref.Types[n]
		have, ok := got[n]
		if !ok {
			r.Bad("C04-SHAPE-KEYS", "type "+n, "the type (or its MarshalJSON struct) with JSON keys no longer exists", "")
			continue
		}
		var diffs []string
		for k, kind := range want {
			if have[k] == "" {
				diffs = append(diffs, "missing key "+k)
			} else if have[k] != kind {
				diffs = append(diffs, fmt.Sprintf("key %s is %s, reference says %s", k, have[k], kind))
			}
		}
		for k := range have {
			if want[k] == "" {
				diffs = append(diffs, "extra key "+k)
			}
		}
		sort.Strings(diffs)
		if len(diffs) == 0 {
			r.Ok("C04-SHAPE-KEYS", "type "+n, fmt.Sprintf("%d keys as in the reference", len(want)), "")
		} else {
			r.Bad("C04-SHAPE-KEYS", "type "+n, "the emitted shape differs from JDoc Exchange 2.0.0: "+strings.Join(diffs, "; "), "")
		}
	}
	for n := range got {
		if _, ok := ref.Types[n]; !ok {
			// an unexported struct is a working structure of a serialiser, like the anonymous ones inside the helpers of a
			// MarshalJSON method (which the table does not list either): giving such a structure a name adds no key
			if n != "" && n[0] >= 'a' && n[0] <= 'z' && !strings.Contains(n, ".") {
				continue
			}
			r.Bad("C04-SHAPE-KEYS", "type "+n, "a type with JSON keys that the reference does not know", "")
		}
	}
	pk := c.P.Pkg("catalog")
	for name, want := range ref.Consts {
		k, _ := pk.Types.Scope().Lookup(name).(*types.Const)
		if k != nil && strings.Trim(k.Val().ExactString(), "\"") == want {
			r.Ok("C04-SHAPE-KEYS", "constant "+name, "= "+want, "")
		} else {
			r.Bad("C04-SHAPE-KEYS", "constant "+name, "expected "+want, "")
		}
	}
}

// DumpShapeRef prints the current shapes in reference format.
func (c *Ctx) DumpShapeRef() string {
	ref := shapeRef{Types: c.extractShapes(), Consts: map[string]string{"JDocExchangeVersion": "2.0.0"}}
	b, _ := json.MarshalIndent(ref, "", " ")
	return string(b)
}

func init() {
	dumpers["shape"] = func(c *Ctx) { fmt.Println(c.DumpShapeRef()) }
}

// ---------- OpenAPI: every HTTP interaction / every user type is exported ----------

func (c *Ctx) ruleEveryInteraction() {
	r := c.R
	r.Rule("C17-EVERY-INTERACTION", "fillPaths visits every interaction; for each HTTP one it reaches `p[path].assignOperation(i.HttpMethod, op)` where path is i.Path().String() of the same interaction (the only other exits are error returns); newSchemas stores a component for every user type unconditionally", 2)
	f := c.fn("catalog/ser/openapi", "fillPaths")
	if f == nil {
		r.Undecided("C17-EVERY-INTERACTION", "fillPaths", "function not found", "")
	} else {
		pk := f.Pkg
		var each *ast.CallExpr
		ast.Inspect(f.Decl.Body, func(n ast.Node) bool {
			if call, ok := n.(*ast.CallExpr); ok {
				if cal := callee(pk, call); cal != nil && cal.Name() == "Each" && isInteractionsRecv(cal) {
					each = call
				}
			}
			return true
		})
		ok, why := false, "no iteration over Interactions.Each"
		if each != nil && len(each.Args) == 1 {
			if fl, isLit := each.Args[0].(*ast.FuncLit); isLit {
				var assign *ast.CallExpr
				ast.Inspect(fl.Body, func(n ast.Node) bool {
					if call, ok := n.(*ast.CallExpr); ok {
						if cal := callee(pk, call); cal != nil && cal.Name() == "assignOperation" {
							assign = call
						}
					}
					return true
				})
				// the body of the closure may have been moved into a helper of the package: the closure calls it, and the
				// helper is judged in its place (the closure's own early returns are still judged at the closure)
				var scope ast.Node = fl.Body
				anchor := token.NoPos
				var helper *Fn
				if assign == nil {
					ast.Inspect(fl.Body, func(n ast.Node) bool {
						call, ok := n.(*ast.CallExpr)
						if !ok || helper != nil {
							return true
						}
						h := c.fnOf(callee(pk, call))
						if h == nil || h.Pkg != pk {
							return true
						}
						ast.Inspect(h.Decl.Body, func(m ast.Node) bool {
							if hc, ok := m.(*ast.CallExpr); ok {
								if cal := callee(pk, hc); cal != nil && cal.Name() == "assignOperation" {
									assign, helper, anchor, scope = hc, h, call.Pos(), h.Decl.Body
								}
							}
							return true
						})
						return true
					})
				}
				if assign != nil && anchor == token.NoPos {
					anchor = assign.Pos()
				}
				switch {
				case assign == nil:
					why = "the closure never calls assignOperation"
				default:
					// method argument is <i>.HttpMethod, receiver is p[path] with path := <i>.Path().String()
					methOK := false
					iName := ""
					if fld := fieldSel(pk, assign.Args[0]); fld != nil && fld.Name() == "HttpMethod" {
						methOK = true
						iName = exprString(assign.Args[0].(*ast.SelectorExpr).X)
					}
					pathOK := false
					if sel, isSel := ast.Unparen(assign.Fun).(*ast.SelectorExpr); isSel {
						if ix, isIx := ast.Unparen(sel.X).(*ast.IndexExpr); isIx {
							if id, isId := ast.Unparen(ix.Index).(*ast.Ident); isId {
								obj := pk.TypesInfo.Uses[id]
								ast.Inspect(scope, func(n ast.Node) bool {
									if as, isAs := n.(*ast.AssignStmt); isAs && len(as.Lhs) == 1 && len(as.Rhs) == 1 {
										if lid, isL := as.Lhs[0].(*ast.Ident); isL && pk.TypesInfo.Defs[lid] == obj {
											if exprString(as.Rhs[0]) == iName+".Path().String()" {
												pathOK = true
											}
										}
									}
									return true
								})
							}
						}
					}
					// skipping: a `return nil` / continue before the assign inside the HTTP branch
					skip := false
					lcf := buildCFG(fl.Body)
					// "this is not an HTTP interaction": the false edge of <id>.Protocol() == HTTP, the true edge of !=,
					// or the false edge of the comma-ok of an assertion to *HTTPInteraction
					okVars := map[types.Object]bool{}
					ast.Inspect(fl.Body, func(n ast.Node) bool {
						if as, isAs := n.(*ast.AssignStmt); isAs && len(as.Lhs) == 2 && len(as.Rhs) == 1 {
							if ta, isTA := ast.Unparen(as.Rhs[0]).(*ast.TypeAssertExpr); isTA && ta.Type != nil && strings.HasSuffix(exprString(ta.Type), "HTTPInteraction") {
								if id, isId := as.Lhs[1].(*ast.Ident); isId {
									if o := pk.TypesInfo.Defs[id]; o != nil {
										okVars[o] = true
									}
								}
							}
						}
						return true
					})
					notHTTP := func(cond ast.Expr, trueEdge bool) bool {
						if id, isId := ast.Unparen(cond).(*ast.Ident); isId && okVars[pk.TypesInfo.Uses[id]] {
							return !trueEdge
						}
						be, isBe := ast.Unparen(cond).(*ast.BinaryExpr)
						if !isBe || (be.Op != token.EQL && be.Op != token.NEQ) {
							return false
						}
						isProto := func(e ast.Expr) bool {
							call, ok := ast.Unparen(e).(*ast.CallExpr)
							if !ok {
								return false
							}
							cal := callee(pk, call)
							return cal != nil && cal.Name() == "Protocol"
						}
						isHTTP := func(e ast.Expr) bool {
							k := constObj(pk, e)
							return k != nil && k.Name() == "HTTP"
						}
						if !((isProto(be.X) && isHTTP(be.Y)) || (isProto(be.Y) && isHTTP(be.X))) {
							return false
						}
						return (be.Op == token.EQL && !trueEdge) || (be.Op == token.NEQ && trueEdge)
					}
					ast.Inspect(fl.Body, func(n ast.Node) bool {
						if ret, isRet := n.(*ast.ReturnStmt); isRet && ret.End() < anchor && len(ret.Results) == 1 && isNil(pk, ret.Results[0]) {
							if !lcf.establishedAt(ret, notHTTP, nil) {
								skip = true
							}
						}
						return true
					})
					if helper != nil {
						// inside the helper nothing may return success before the operation is assigned
						ast.Inspect(helper.Decl.Body, func(n ast.Node) bool {
							if ret, isRet := n.(*ast.ReturnStmt); isRet && ret.End() < assign.Pos() && len(ret.Results) == 1 && isNil(pk, ret.Results[0]) {
								skip = true
							}
							return true
						})
					}
					switch {
					case !methOK:
						why = "the operation is not assigned under the interaction's own HttpMethod"
					case !pathOK:
						why = "the path item is not keyed by the interaction's own Path()"
					case skip:
						why = "an HTTP interaction can be skipped (`return nil` before assignOperation)"
					default:
						ok = true
					}
				}
			}
		}
		if ok {
			r.Ok("C17-EVERY-INTERACTION", "fillPaths", "every HTTP interaction ends in paths[i.Path()].assignOperation(i.HttpMethod, ...)", c.pos(f.Decl.Pos()))
		} else {
			r.Bad("C17-EVERY-INTERACTION", "fillPaths", why, c.pos(f.Decl.Pos()))
		}
	}
	g := c.fn("catalog/ser/openapi", "newSchemas")
	if g == nil {
		r.Undecided("C17-EVERY-INTERACTION", "newSchemas", "function not found", "")
		return
	}
	pk := g.Pkg
	ok := false
	ast.Inspect(g.Decl.Body, func(n ast.Node) bool {
		call, isCall := n.(*ast.CallExpr)
		if !isCall || len(call.Args) != 1 {
			return true
		}
		cal := callee(pk, call)
		fl, isLit := call.Args[0].(*ast.FuncLit)
		if cal == nil || cal.Name() != "Each" || !isLit {
			return true
		}
		if !strings.HasSuffix(namedType(cal.Type().(*types.Signature).Recv().Type()), "catalog.UserTypes") {
			return true
		}
		// a top-level store ss[f(name)] = ... in the closure body
		for _, st := range fl.Body.List {
			if as, isAs := st.(*ast.AssignStmt); isAs && len(as.Lhs) == 1 {
				if _, isIx := ast.Unparen(as.Lhs[0]).(*ast.IndexExpr); isIx {
					ok = true
				}
			}
		}
		return true
	})
	if ok {
		r.Ok("C17-EVERY-INTERACTION", "newSchemas", "every user type is stored as a component, unconditionally", c.pos(g.Decl.Pos()))
	} else {
		r.Bad("C17-EVERY-INTERACTION", "newSchemas", "not every user type becomes a component: a $ref to it cannot resolve", c.pos(g.Decl.Pos()))
	}
}

var _ = prog.ModulePath

// ruleRequiredArrays: a required (no omitempty) array or object key of a hand-written emitter must not be emitted as
// null. In a MarshalJSON method of package catalog, a slice- or map-typed field of the local value that is handed to
// json.Marshal and that is only ever built up by append onto itself needs an initialisation by make / a literal that
// dominates the Marshal call (append onto a nil slice that receives no element stays nil and is encoded as null).
func (c *Ctx) ruleRequiredArrays() {
	r := c.R
	r.Rule("C04-REQUIRED-ARRAY", "in the MarshalJSON methods of package catalog every required (no omitempty) slice/map field of the emitted local struct that is accumulated by append is initialised by make or a literal on every path to the json.Marshal call: an empty collection is emitted as [] / {}, never as null", 1)
	pk := c.P.Pkg("catalog")
	if pk == nil {
		r.Undecided("C04-REQUIRED-ARRAY", "anchor", "package catalog not loaded", "")
		return
	}
	n := 0
	for _, f := range c.libFns() {
		if f.Pkg != pk || f.Obj.Name() != "MarshalJSON" {
			continue
		}
		// the marshal calls and their argument variable
		var marshals []*ast.CallExpr
		ast.Inspect(f.Decl.Body, func(nd ast.Node) bool {
			if call, ok := nd.(*ast.CallExpr); ok && len(call.Args) >= 1 {
				if cal := callee(pk, call); cal != nil && cal.Pkg() != nil && cal.Pkg().Path() == "encoding/json" && strings.HasPrefix(cal.Name(), "Marshal") {
					marshals = append(marshals, call)
				}
			}
			return true
		})
		cf := buildCFG(f.Decl.Body)
		for _, mc := range marshals {
			arg := ast.Unparen(mc.Args[0])
			if u, ok := arg.(*ast.UnaryExpr); ok && u.Op == token.AND {
				arg = ast.Unparen(u.X)
			}
			id, ok := arg.(*ast.Ident)
			if !ok {
				continue
			}
			st, ok := pk.TypesInfo.TypeOf(id).Underlying().(*types.Struct)
			if !ok {
				continue
			}
			base := accessPath(pk, id)
			for i := 0; i < st.NumFields(); i++ {
				fld := st.Field(i)
				switch fld.Type().Underlying().(type) {
				case *types.Slice, *types.Map:
				default:
					continue
				}
				tag := reflect.StructTag(st.Tag(i)).Get("json")
				if tag == "-" || strings.Contains(tag, "omitempty") {
					continue
				}
				path := base + "." + fld.Name()
				var inits, appends, others []ast.Node
				ast.Inspect(f.Decl.Body, func(nd ast.Node) bool {
					switch x := nd.(type) {
					case *ast.AssignStmt:
						for j, l := range x.Lhs {
							if accessPath(pk, l) != path || j >= len(x.Rhs) {
								continue
							}
							switch rhs := ast.Unparen(x.Rhs[j]).(type) {
							case *ast.CompositeLit:
								inits = append(inits, x)
							case *ast.CallExpr:
								if fid, ok := rhs.Fun.(*ast.Ident); ok && fid.Name == "make" {
									inits = append(inits, x)
								} else if ok && fid.Name == "append" && len(rhs.Args) > 0 && accessPath(pk, rhs.Args[0]) == path {
									appends = append(appends, x)
								} else {
									others = append(others, x)
								}
							default:
								others = append(others, x)
							}
						}
					case *ast.CompositeLit:
						// data := S{F: make(...)}
						if t := pk.TypesInfo.TypeOf(x); t != nil && types.Identical(t.Underlying(), st) {
							for _, el := range x.Elts {
								if kv, ok := el.(*ast.KeyValueExpr); ok {
									if kid, ok := kv.Key.(*ast.Ident); ok && kid.Name == fld.Name() {
										others = append(others, x)
									}
								}
							}
						}
					}
					return true
				})
				if len(others) == 1 && len(appends) == 0 && len(inits) == 0 {
					// filled by one call of a helper of the library that accumulates its result: judged in the helper
					if as, ok := others[0].(*ast.AssignStmt); ok && len(as.Rhs) == 1 {
						if call, ok := ast.Unparen(as.Rhs[0]).(*ast.CallExpr); ok {
							if h := c.fnOf(callee(pk, call)); h != nil {
								if acc, good, at := accumulatedResult(h); acc {
									n++
									key := fmt.Sprintf("%s | %s", f.Name(), fld.Name())
									if good {
										r.Ok("C04-REQUIRED-ARRAY", key, "built by "+h.Name()+", whose result is initialised by make / a literal on every path to its return", c.pos(at))
									} else {
										r.Bad("C04-REQUIRED-ARRAY", key, "built by "+h.Name()+", whose result is accumulated by append only: when nothing is appended the required key is emitted as null instead of an empty array", c.pos(at))
									}
									continue
								}
							}
						}
					}
				}
				if len(others) > 0 || (len(appends) == 0 && len(inits) == 0) {
					continue // filled from somewhere else: its nil-ness is that of the source (not decided here)
				}
				n++
				key := fmt.Sprintf("%s | %s", f.Name(), fld.Name())
				ok := false
				for _, in := range inits {
					if cf.dominatedBy(mc, in) {
						ok = true
					}
				}
				if ok {
					r.Ok("C04-REQUIRED-ARRAY", key, "initialised by make / a literal on every path to json.Marshal", c.pos(mc.Pos()))
				} else {
					r.Bad("C04-REQUIRED-ARRAY", key, "the required key is built by append only: when nothing is appended it is emitted as null instead of an empty array", c.pos(mc.Pos()))
				}
			}
		}
	}
	if n == 0 {
		r.Undecided("C04-REQUIRED-ARRAY", "sites", "no accumulated required array found (Tag.interactionGroups used to match)", "")
	}
}


// accumulatedResult: h returns one slice/map that it builds in a local variable by append onto itself
// (acc); good says that an initialisation by make or a literal dominates every return of that variable.
func accumulatedResult(h *Fn) (acc, good bool, at token.Pos) {
	pk := h.Pkg
	var rets []*ast.ReturnStmt
	var v types.Object
	single := true
	ast.Inspect(h.Decl.Body, func(n ast.Node) bool {
		if _, ok := n.(*ast.FuncLit); ok {
			return false
		}
		if ret, ok := n.(*ast.ReturnStmt); ok {
			if len(ret.Results) != 1 {
				single = false
				return true
			}
			id, ok := ast.Unparen(ret.Results[0]).(*ast.Ident)
			if !ok {
				single = false
				return true
			}
			o := pk.TypesInfo.Uses[id]
			if v != nil && o != v {
				single = false
			}
			v = o
			rets = append(rets, ret)
		}
		return true
	})
	if !single || v == nil || len(rets) == 0 {
		return false, false, h.Decl.Pos()
	}
	var inits, appends []ast.Node
	other := false
	isV := func(e ast.Expr) bool {
		id, ok := ast.Unparen(e).(*ast.Ident)
		return ok && (pk.TypesInfo.Uses[id] == v || pk.TypesInfo.Defs[id] == v)
	}
	classify := func(at ast.Node, rhs ast.Expr) {
		switch x := ast.Unparen(rhs).(type) {
		case *ast.CompositeLit:
			inits = append(inits, at)
		case *ast.CallExpr:
			if fid, ok := x.Fun.(*ast.Ident); ok && fid.Name == "make" {
				inits = append(inits, at)
			} else if ok && fid.Name == "append" && len(x.Args) > 0 && isV(x.Args[0]) {
				appends = append(appends, at)
			} else {
				other = true
			}
		default:
			other = true
		}
	}
	ast.Inspect(h.Decl.Body, func(n ast.Node) bool {
		switch x := n.(type) {
		case *ast.AssignStmt:
			for j, l := range x.Lhs {
				if isV(l) && j < len(x.Rhs) && len(x.Lhs) == len(x.Rhs) {
					classify(x, x.Rhs[j])
				} else if isV(l) {
					other = true
				}
			}
		case *ast.ValueSpec:
			for j, nm := range x.Names {
				if pk.TypesInfo.Defs[nm] == v && j < len(x.Values) {
					classify(x, x.Values[j])
				}
			}
		}
		return true
	})
	if other || len(appends) == 0 {
		return false, false, h.Decl.Pos()
	}
	cf := buildCFG(h.Decl.Body)
	good = true
	for _, ret := range rets {
		dom := false
		for _, in := range inits {
			if cf.dominatedBy(ret, in) {
				dom = true
			}
		}
		if !dom {
			good = false
			at = ret.Pos()
		}
	}
	if at == token.NoPos {
		at = rets[0].Pos()
	}
	return true, good, at
}
