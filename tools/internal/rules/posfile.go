package rules

import (
	"go/ast"
	"go/importer"
	"go/parser"
	"go/token"
	"go/types"
	"strings"
)

// A byte position means something only together with its file: since INCLUDE, two directives of different files can
// have the same offset. Comparing the positions of two different Coords (a.Begin() == b.Begin()) to decide that they
// are "the same directive" or "the same body" holds in every single-file document and fails after a split. (F26 was this
// with parents; a memo of parsed Path bodies keyed by the offset alone is the same mistake.)

// positionComparisons finds, in one type-checked function body, equality tests between Begin() of two different
// values of a type named Coords (package directive) whose enclosing condition does not also compare File() of both.
func positionComparisons(info *types.Info, body ast.Node) []*ast.BinaryExpr {
	isCoordsCall := func(e ast.Expr, method string) (recv ast.Expr, ok bool) {
		call, isCall := ast.Unparen(e).(*ast.CallExpr)
		if !isCall || len(call.Args) != 0 {
			return nil, false
		}
		sel, isSel := ast.Unparen(call.Fun).(*ast.SelectorExpr)
		if !isSel || sel.Sel.Name != method {
			return nil, false
		}
		t := info.TypeOf(sel.X)
		if t == nil {
			return nil, false
		}
		if p, isP := t.(*types.Pointer); isP {
			t = p.Elem()
		}
		named, isN := t.(*types.Named)
		if !isN || named.Obj().Name() != "Coords" || named.Obj().Pkg() == nil || named.Obj().Pkg().Name() != "directive" {
			return nil, false
		}
		return sel.X, true
	}
	// the same for the byte index of an error or a location (package jerr): <x>.Index with <x>.File
	isErrField := func(e ast.Expr, field string) (recv ast.Expr, ok bool) {
		sel, isSel := ast.Unparen(e).(*ast.SelectorExpr)
		if !isSel || sel.Sel.Name != field {
			return nil, false
		}
		t := info.TypeOf(sel.X)
		if t == nil {
			return nil, false
		}
		if p, isP := t.(*types.Pointer); isP {
			t = p.Elem()
		}
		named, isN := t.(*types.Named)
		if !isN || named.Obj().Pkg() == nil || named.Obj().Pkg().Name() != "jerr" || (named.Obj().Name() != "JApiError" && named.Obj().Name() != "Location") {
			return nil, false
		}
		return sel.X, true
	}
	isPos := func(e ast.Expr) (ast.Expr, bool) {
		if r, ok := isCoordsCall(e, "Begin"); ok {
			return r, true
		}
		return isErrField(e, "Index")
	}
	isFileOf := func(e ast.Expr) (ast.Expr, bool) {
		if r, ok := isCoordsCall(e, "File"); ok {
			return r, true
		}
		return isErrField(e, "File")
	}
	var out []*ast.BinaryExpr
	inspectWithStack(body, func(n ast.Node, stack []ast.Node) bool {
		be, ok := n.(*ast.BinaryExpr)
		if !ok {
			return true
		}
		switch be.Op {
		case token.EQL, token.NEQ, token.LSS, token.GTR, token.LEQ, token.GEQ:
		default:
			return true
		}
		ra, okA := isPos(be.X)
		rb, okB := isPos(be.Y)
		if !okA || !okB || types.ExprString(ra) == types.ExprString(rb) {
			return true
		}
		// the outermost condition this comparison belongs to
		var root ast.Expr = be
		for i := len(stack) - 1; i >= 0; i-- {
			if p, ok := stack[i].(*ast.BinaryExpr); ok && (p.Op == token.LAND || p.Op == token.LOR) {
				root = p
				continue
			}
			if _, ok := stack[i].(*ast.ParenExpr); ok {
				continue
			}
			if _, ok := stack[i].(*ast.UnaryExpr); ok {
				continue
			}
			break
		}
		files := false
		ast.Inspect(root, func(m ast.Node) bool {
			if fb, ok := m.(*ast.BinaryExpr); ok && (fb.Op == token.EQL || fb.Op == token.NEQ) {
				fa, ok1 := isFileOf(fb.X)
				fc, ok2 := isFileOf(fb.Y)
				if ok1 && ok2 {
					a, b := types.ExprString(fa), types.ExprString(fc)
					if (a == types.ExprString(ra) && b == types.ExprString(rb)) || (a == types.ExprString(rb) && b == types.ExprString(ra)) {
						files = true
					}
				}
			}
			return true
		})
		if !files {
			out = append(out, be)
		}
		return true
	})
	return out
}

// positionSelfTest: the matcher must find the one comparison in a tiny example and accept the repaired form (a rule
// whose expected count on the tree is zero has to show on every run that it can still match).
func positionSelfTest() string {
	src := `package directive
type File struct{}
type Coords struct{ f *File; b int }
func (c Coords) Begin() int { return c.b }
func (c Coords) File() *File { return c.f }
func bad(x, y Coords) bool { return x.Begin() == y.Begin() }
func good(x, y Coords) bool { return x.File() == y.File() && x.Begin() == y.Begin() }
`
	fset := token.NewFileSet()
	f, err := parser.ParseFile(fset, "selftest.go", src, 0)
	if err != nil {
		return "self-test does not parse: " + err.Error()
	}
	info := &types.Info{Types: map[ast.Expr]types.TypeAndValue{}, Uses: map[*ast.Ident]types.Object{}, Defs: map[*ast.Ident]types.Object{}, Selections: map[*ast.SelectorExpr]*types.Selection{}}
	conf := types.Config{Importer: importer.Default()}
	if _, err := conf.Check("directive", fset, []*ast.File{f}, info); err != nil {
		return "self-test does not type-check: " + err.Error()
	}
	got := map[string]int{}
	for _, d := range f.Decls {
		if fd, ok := d.(*ast.FuncDecl); ok && fd.Body != nil {
			got[fd.Name.Name] = len(positionComparisons(info, fd.Body))
		}
	}
	if got["bad"] != 1 || got["good"] != 0 {
		return "the matcher no longer tells the two forms apart"
	}
	return ""
}

func (c *Ctx) rulePositionNeedsFile(rule string) {
	r := c.R
	r.Rule(rule, "no equality test between the byte positions (Begin()) of two different directive.Coords values unless the same condition also compares their File(), and no map keyed by Begin() or String() of a Coords: an offset identifies a place only within one file, and INCLUDE puts several files into one document (two bodies of different files may start at the same offset)", 1)
	if why := positionSelfTest(); why != "" {
		r.Undecided(rule, "self-test", why, "")
		return
	}
	n := 0
	for _, f := range c.libFns() {
		if strings.HasSuffix(f.Pkg.Fset.Position(f.Decl.Pos()).Filename, "_gen.go") {
			continue
		}
		for _, be := range positionComparisons(f.Pkg.TypesInfo, f.Decl.Body) {
			n++
			r.Bad(rule, f.Name()+" | "+exprString(be), "two places are taken for the same one because their byte offsets are equal, without looking at the files: true in a single-file document, false as soon as the two come from different files of an INCLUDE tree", c.pos(be.Pos()))
		}
	}
	// the same mistake with a table: a map keyed by Begin() or String() of a Coords (String prints "[begin:end]")
	for _, f := range c.libFns() {
		if strings.HasSuffix(f.Pkg.Fset.Position(f.Decl.Pos()).Filename, "_gen.go") {
			continue
		}
		pk := f.Pkg
		ast.Inspect(f.Decl.Body, func(nd ast.Node) bool {
			ix, ok := nd.(*ast.IndexExpr)
			if !ok {
				return true
			}
			if _, isMap := pk.TypesInfo.TypeOf(ix.X).Underlying().(*types.Map); !isMap {
				return true
			}
			key := unalias(f, ix.Index)
			// a conversion around it (string(x), T(x)) changes nothing
			for {
				if cv, ok := key.(*ast.CallExpr); ok && len(cv.Args) == 1 {
					if tv, ok := pk.TypesInfo.Types[cv.Fun]; ok && tv.IsType() {
						key = unalias(f, cv.Args[0])
						continue
					}
				}
				break
			}
			call, ok := key.(*ast.CallExpr)
			if !ok || len(call.Args) != 0 {
				return true
			}
			sel, ok := ast.Unparen(call.Fun).(*ast.SelectorExpr)
			if !ok || (sel.Sel.Name != "Begin" && sel.Sel.Name != "String") {
				return true
			}
			t := pk.TypesInfo.TypeOf(sel.X)
			if t == nil {
				return true
			}
			if p, isP := t.(*types.Pointer); isP {
				t = p.Elem()
			}
			named, isN := t.(*types.Named)
			if !isN || named.Obj().Name() != "Coords" || named.Obj().Pkg() == nil || named.Obj().Pkg().Name() != "directive" {
				return true
			}
			n++
			r.Bad(rule, f.Name()+" | map keyed by "+exprString(key), "a table is keyed by the byte position of a body ("+sel.Sel.Name+"() of its Coords) without the file: two bodies of different files of an INCLUDE tree that lie at the same offsets share one entry, so the second is taken for the first", c.pos(ix.Pos()))
			return true
		})
	}
	if n == 0 {
		r.Ok(rule, "library", "no position-only comparison of two Coords and no table keyed by a position alone (the matcher finds the comparison in its built-in example)", "")
	}
}
