package rules

import (
	"fmt"
	"go/ast"
	"go/constant"
	"go/types"
	"strings"
)

// ---------- a walk over a schema's content goes through arrays as well as objects ----------

// ruleWalkEveryContainer: the content of a JSight schema in the catalog is a tree of nodes; objects AND arrays have
// children. A recursive walk that gives up at every node that is not an object never sees the objects inside an array:
// what it does for objects (inheriting the properties of an allOf type, F59) is missing there, while the example of the
// same schema - made by the schema library - has it.
func (c *Ctx) ruleWalkEveryContainer(rule string) {
	r := c.R
	r.Rule(rule, "every method of catalog.ExchangeContent that calls itself on the elements of Children, run abstractly with the node's TokenType bound to \"object\" and then to \"array\" (every other test left open), reaches that recursive call for both kinds: no early return keeps the walk out of the children of an array", 1)
	pk := c.P.Pkg("catalog")
	if pk == nil {
		r.Undecided(rule, "anchor", "package catalog not loaded", "")
		return
	}
	n := 0
	for _, f := range c.libFns() {
		if f.Pkg != pk || f.Decl.Recv == nil {
			continue
		}
		sig := f.Obj.Type().(*types.Signature)
		if sig.Recv() == nil || !strings.HasSuffix(namedType(derefType(sig.Recv().Type())), "catalog.ExchangeContent") {
			continue
		}
		// recursive on the children?
		var rec []*ast.CallExpr
		ast.Inspect(f.Decl.Body, func(nd ast.Node) bool {
			rs, ok := nd.(*ast.RangeStmt)
			if !ok {
				return true
			}
			if sel, ok := ast.Unparen(rs.X).(*ast.SelectorExpr); !ok || sel.Sel.Name != "Children" {
				return true
			}
			ast.Inspect(rs.Body, func(m ast.Node) bool {
				if call, ok := m.(*ast.CallExpr); ok {
					if cal := callee(pk, call); cal != nil && cal.Origin() == f.Obj.Origin() {
						rec = append(rec, call)
					}
				}
				return true
			})
			return true
		})
		if len(rec) == 0 {
			continue
		}
		n++
		recvObj := pk.TypesInfo.Defs[f.Decl.Recv.List[0].Names[0]]
		for _, kind := range []string{"object", "array"} {
			env := &constEnv{c: c, vars: map[types.Object]constant.Value{}}
			env.leaf = func(g *Fn, e ast.Expr) (constant.Value, bool) {
				sel, ok := e.(*ast.SelectorExpr)
				if !ok || sel.Sel.Name != "TokenType" || g.Obj != f.Obj {
					return nil, false
				}
				if id, ok := ast.Unparen(sel.X).(*ast.Ident); ok && g.Pkg.TypesInfo.Uses[id] == recvObj {
					return constant.MakeString(kind), true
				}
				return nil, false
			}
			env.retLabel = func(g *Fn, e ast.Expr) string { return "return" }
			reached := false
			env.visit = func(g *Fn, nd ast.Node) {
				if g.Obj != f.Obj {
					return
				}
				ast.Inspect(nd, func(m ast.Node) bool {
					for _, rc := range rec {
						if m == ast.Node(rc) {
							reached = true
						}
					}
					return true
				})
			}
			outs := map[string]bool{}
			env.evalBody(f, f.Decl.Body.List, outs, 0)
			key := fmt.Sprintf("%s | node of kind %s", f.Name(), kind)
			if reached {
				r.Ok(rule, key, "the walk reaches its call on the children", c.pos(f.Decl.Pos()))
			} else {
				r.Bad(rule, key, "for a node of this kind the function returns before it looks at the children: whatever it does for the objects of a schema is not done for the objects inside an "+kind+" (an item `{ // {allOf: \"@b\"} ... }` of an array keeps only its own properties in the schema content, while the example shows the inherited ones)", c.pos(f.Decl.Pos()))
			}
		}
	}
	if n == 0 {
		r.Undecided(rule, "sites", "no method of catalog.ExchangeContent calls itself on its Children", "")
	}
}
