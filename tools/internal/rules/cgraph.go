package rules

// Call-graph helpers (VTA over SSA) shared by the reachability, recursion and lock rules.

import (
	"go/types"
	"sort"
	"strings"

	"golang.org/x/tools/go/callgraph"
	"golang.org/x/tools/go/ssa"

	"jsverif/internal/prog"
)

// ssaRoots resolves "pkgrel:Name" / "pkgrel:Type.Method" specs to SSA functions.
func (c *Ctx) ssaRoots(specs ...string) []*ssa.Function {
	var out []*ssa.Function
	for _, s := range specs {
		parts := strings.SplitN(s, ":", 2)
		obj := c.P.LookupFunc(parts[0], parts[1])
		if obj == nil {
			c.R.Undecided("LOAD", "root "+s, "entry point does not resolve", "")
			continue
		}
		if f := c.P.SSAFunc(obj); f != nil {
			out = append(out, f)
		}
	}
	return out
}

var buildRoots = []string{"kit:NewJapi", "kit:NewJApiFromFile", "core:NewJApiCore", "core:JApiCore.BuildCatalog", "core:WithBannedDirectives"}

var serialiseRoots = []string{"kit:JApi.ToJson", "kit:JApi.ToJsonIndent", "kit:JApi.ToOpenAPIJson", "kit:JApi.ToOpenAPIJsonIndent", "kit:JApi.Title", "kit:JApi.Catalog"}

// marshalRoots: methods the encoders call by reflection (MarshalJSON / MarshalText / String / Error) of library types.
func (c *Ctx) marshalRoots(pkgFilter func(path string) bool) []*ssa.Function {
	c.P.BuildSSA()
	var out []*ssa.Function
	for _, f := range c.P.LibFuncs() {
		switch f.Name() {
		case "MarshalJSON", "MarshalText":
			if pkgFilter == nil || pkgFilter(f.Pkg().Path()) {
				if sf := c.P.SSAFunc(f); sf != nil {
					out = append(out, sf)
				}
			}
		}
	}
	return out
}

// reachableLib returns library functions (incl. closures) reachable from roots, not walking below `stop` functions.
func (c *Ctx) reachableLib(roots []*ssa.Function, stop map[*ssa.Function]bool) map[*ssa.Function]bool {
	return c.reachableLibOpts(roots, stop, false)
}

// reachableLibOpts: with cutOnce, closures handed to (*sync.Once).Do / ErrOnce.Do are not followed
// (once-only initialisation is not part of the steady-state behaviour).
func (c *Ctx) reachableLibOpts(roots []*ssa.Function, stop map[*ssa.Function]bool, cutOnce bool) map[*ssa.Function]bool {
	cg := c.P.CallGraph()
	seen := map[*ssa.Function]bool{}
	var work []*ssa.Function
	push := func(f *ssa.Function) {
		if f != nil && !seen[f] {
			seen[f] = true
			work = append(work, f)
		}
	}
	for _, r := range roots {
		push(r)
	}
	for len(work) > 0 {
		f := work[len(work)-1]
		work = work[:len(work)-1]
		if stop[f] {
			continue
		}
		// Function values: a function that is referenced (closure created, method value taken, function
		// stored or passed) in reachable code may be called. In exchange, calls through a function-typed
		// VALUE are not resolved by the (context-insensitive) call graph: otherwise every closure ever
		// passed to Each/Map/Update would be reachable from every caller of these methods.
		for _, b := range f.Blocks {
			for _, ins := range b.Instrs {
				isCall := false
				var callee ssa.Value
				if ci, ok := ins.(ssa.CallInstruction); ok {
					isCall = true
					callee = ci.Common().Value
					if cutOnce && isOnceDo(ci.Common().StaticCallee()) {
						continue
					}
				}
				for _, op := range ins.Operands(nil) {
					if op == nil || *op == nil {
						continue
					}
					if fn, ok := (*op).(*ssa.Function); ok {
						if isCall && callee == ssa.Value(fn) && !hasOperandTwice(ins, fn) {
							continue // a static call: followed through the call graph edge below
						}
						push(fn)
					}
				}
			}
		}
		if n := cg.Nodes[f]; n != nil {
			for _, e := range n.Out {
				if cutOnce && isOnceDo(e.Callee.Func) {
					continue
				}
				if e.Site != nil {
					cc := e.Site.Common()
					if !cc.IsInvoke() && cc.StaticCallee() == nil {
						if _, isBuiltin := cc.Value.(*ssa.Builtin); !isBuiltin {
							continue // call through a function value: see above
						}
					}
				}
				push(e.Callee.Func)
			}
		}
	}
	out := map[*ssa.Function]bool{}
	for f := range seen {
		if c.P.InLib(f) {
			out[f] = true
		}
	}
	return out
}

func hasOperandTwice(ins ssa.Instruction, fn *ssa.Function) bool {
	n := 0
	for _, op := range ins.Operands(nil) {
		if op != nil && *op == ssa.Value(fn) {
			n++
		}
	}
	return n > 1
}

// declOf maps an SSA function (or closure) to the declared function that contains it.
func declOf(f *ssa.Function) *types.Func {
	for f.Parent() != nil {
		f = f.Parent()
	}
	if o := f.Origin(); o != nil {
		f = o
	}
	obj, _ := f.Object().(*types.Func)
	return obj
}

// libSCCs returns the strongly connected components (size>1 or self-loop) of the library call graph
// restricted to the given function set; members are named, sorted.
func (c *Ctx) libSCCs(within map[*ssa.Function]bool) [][]*ssa.Function {
	cg := c.P.CallGraph()
	index := map[*ssa.Function]int{}
	low := map[*ssa.Function]int{}
	on := map[*ssa.Function]bool{}
	var stack []*ssa.Function
	var out [][]*ssa.Function
	idx := 0
	succs := func(f *ssa.Function) []*ssa.Function {
		var ss []*ssa.Function
		if n := cg.Nodes[f]; n != nil {
			for _, e := range n.Out {
				if g := e.Callee.Func; g != nil && within[g] {
					ss = append(ss, g)
				}
			}
		}
		// a closure is "called" by its parent for the purposes of recursion detection only through real edges
		return ss
	}
	var fs []*ssa.Function
	for f := range within {
		fs = append(fs, f)
	}
	sort.Slice(fs, func(i, j int) bool { return prog.SSAName(fs[i]) < prog.SSAName(fs[j]) })
	type frame struct {
		f  *ssa.Function
		ss []*ssa.Function
		i  int
	}
	for _, root := range fs {
		if _, ok := index[root]; ok {
			continue
		}
		var cs []frame
		visit := func(f *ssa.Function) {
			index[f] = idx
			low[f] = idx
			idx++
			stack = append(stack, f)
			on[f] = true
			cs = append(cs, frame{f, succs(f), 0})
		}
		visit(root)
		for len(cs) > 0 {
			fr := &cs[len(cs)-1]
			if fr.i < len(fr.ss) {
				g := fr.ss[fr.i]
				fr.i++
				if _, ok := index[g]; !ok {
					visit(g)
				} else if on[g] && index[g] < low[fr.f] {
					low[fr.f] = index[g]
				}
				continue
			}
			f := fr.f
			cs = cs[:len(cs)-1]
			if len(cs) > 0 {
				p := cs[len(cs)-1].f
				if low[f] < low[p] {
					low[p] = low[f]
				}
			}
			if low[f] == index[f] {
				var comp []*ssa.Function
				for {
					g := stack[len(stack)-1]
					stack = stack[:len(stack)-1]
					on[g] = false
					comp = append(comp, g)
					if g == f {
						break
					}
				}
				self := false
				if len(comp) == 1 {
					for _, s := range succs(comp[0]) {
						if s == comp[0] {
							self = true
						}
					}
				}
				if len(comp) > 1 || self {
					sort.Slice(comp, func(i, j int) bool { return prog.SSAName(comp[i]) < prog.SSAName(comp[j]) })
					out = append(out, comp)
				}
			}
		}
	}
	sort.Slice(out, func(i, j int) bool { return prog.SSAName(out[i][0]) < prog.SSAName(out[j][0]) })
	return out
}

// edgesWithin lists the call edges between members of a component.
func (c *Ctx) edgesWithin(comp []*ssa.Function) []*callgraph.Edge {
	cg := c.P.CallGraph()
	in := map[*ssa.Function]bool{}
	for _, f := range comp {
		in[f] = true
	}
	var out []*callgraph.Edge
	for _, f := range comp {
		if n := cg.Nodes[f]; n != nil {
			for _, e := range n.Out {
				if in[e.Callee.Func] {
					out = append(out, e)
				}
			}
		}
	}
	return out
}
