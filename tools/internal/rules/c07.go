package rules

import (
	"fmt"
	"go/ast"
	"go/constant"
	"go/token"
	"go/types"
	"golang.org/x/tools/go/ssa"
	"jsverif/internal/ssaeval"
	"os"
	"regexp"
	"sort"
	"strconv"
	"strings"

	"jsverif/internal/prog"
)

func init() {
	register("C07", propC07, false, false)
	register("C17", propC17, false, false)
}

func propC07(c *Ctx) {
	c.R.Explanation = "Decides that (a) the (file, index) pair of every error comes from one source object (a lexeme, a Coords, or the scanner's own file+cursor), at every call of jerr.NewJApiError and of its wrappers; (b) Line/Column/Quote and the trace lines are only computed by NewLocation from (file, index), and JApiError/Location values are only built inside package jerr; (c) after scanning, errors are only built through Directive.makeError, which attaches the trace captured when the directive was scanned, and scan-time errors get the live stack through the deferred call in scanProject, innermost first, once; (d) the include-tracer memo: the cached value is built from the live stack only, and its key must determine that value (today it does not: recorded finding F16, whose repair is blocked by a pinned test). Not decided: that the index is the right one for each message, nor index < len(file) (EOF errors use index == len, asserted by pinned tests)."
	c.ruleSameSource()
	c.rulePhaseConstructor()
	c.ruleWhoConstructs()
	c.ruleLineSource()
	c.ruleNewlineOwner()
	c.ruleScanTrace()
	c.ruleDirectiveTrace()
	c.ruleNoRewrap()
	c.ruleErrorOnOwnDirective("C07-ERROR-ON-OWN-DIRECTIVE")
	c.ruleBlamedType("C07-BLAMED-TYPE")
	c.ruleTraceRecorder("C07-TRACE-RECORDER")
	c.ruleBorrowedSliceReadOnly("C07-BORROWED-SLICE-READ-ONLY")
	c.ruleMemoKey()
	// line numbers are counted in the file's bytes: nothing may rewrite them in place (a normaliser that works on the
	// slice it was given shifts every later line)
	c.ruleNormalisers()
	c.ruleC14NameIsPath() // ... and nothing may change them between the disk and the file object
	// a location is computed from the file object of THIS build: no package-level cache of files, line tables or
	// traces may outlive a build
	c.ruleGlobalState("C07-GLOBAL-STATE")
}

// ruleNewlineOwner: Line and Column are asked from the dependency (bytes.Bytes.LineAndColumn), which first finds out
// whether the file uses LF, CRLF or CR. Whatever else package jerr says about lines (the quoted line, its bounds) has
// to ask the same owner: a search for a line-break byte written by hand knows one convention only and disagrees with
// Line/Column on the others.
func (c *Ctx) ruleNewlineOwner() {
	r := c.R
	r.Rule("C07-NEWLINE-OWNER", "package jerr never decides by itself where a line ends: the constants '\\n' and '\\r' (as byte, rune or string) appear there only as text that is written out (argument of a Write*/fmt call), never in a comparison or as the needle of a search; line bounds come from the methods of bytes.Bytes that also give Line and Column", 1)
	pkj := c.P.Pkg("jerr")
	if pkj == nil {
		r.Undecided("C07-NEWLINE-OWNER", "anchor", "package jerr not found", "")
		return
	}
	n, bad := 0, 0
	for _, f := range c.libFns() {
		if f.Pkg != pkj {
			continue
		}
		pk := f.Pkg
		inspectWithStack(f.Decl.Body, func(nd ast.Node, stack []ast.Node) bool {
			e, ok := nd.(ast.Expr)
			if !ok {
				return true
			}
			tv, ok := pk.TypesInfo.Types[e]
			if !ok || tv.Value == nil {
				return true
			}
			isBreak := false
			switch tv.Value.Kind() {
			case constant.Int:
				if _, isLit := e.(*ast.BasicLit); isLit && e.(*ast.BasicLit).Kind == token.CHAR {
					v, _ := constant.Int64Val(tv.Value)
					isBreak = v == 10 || v == 13
				}
			case constant.String:
				sv := constant.StringVal(tv.Value)
				isBreak = sv == "\n" || sv == "\r" || sv == "\r\n"
			}
			if !isBreak {
				return true
			}
			n++
			// allowed: an argument of an output call
			out := false
			if len(stack) > 0 {
				if call, ok := stack[len(stack)-1].(*ast.CallExpr); ok {
					name := ""
					switch fx := ast.Unparen(call.Fun).(type) {
					case *ast.SelectorExpr:
						name = fx.Sel.Name
					case *ast.Ident:
						name = fx.Name
					}
					if strings.HasPrefix(name, "Write") || strings.HasPrefix(name, "Fprint") || strings.HasPrefix(name, "Sprint") || strings.HasPrefix(name, "Print") || name == "Join" || name == "Repeat" {
						out = true
					}
				}
				if be, ok := stack[len(stack)-1].(*ast.BinaryExpr); ok && be.Op == token.ADD {
					out = true // text being put together
				}
			}
			if !out {
				bad++
				r.Bad("C07-NEWLINE-OWNER", f.Name()+" | "+exprString(e), "a line-break constant is used to find or compare line ends by hand: Line and Column come from bytes.Bytes.LineAndColumn, which honours CR-only and CRLF files; a hand-written search knows one convention and the quoted line (or any bound derived from it) disagrees with the reported position", c.pos(e.Pos()))
			}
			return false
		})
	}
	if bad == 0 {
		r.Ok("C07-NEWLINE-OWNER", "package jerr", fmt.Sprintf("%d line-break constant(s), all of them written out as text", n), "")
	}
}

// ---------- (file, index) from one source ----------

func (c *Ctx) ruleSameSource() {
	r := c.R
	r.Rule("C07-SAME-SOURCE", "at every call of jerr.NewJApiError(msg, f, i), f and i are read from the same object: (x.File(), x.Begin()), (x.file, x.begin[+rel]), (s.file, s.curIndex[+rel]) or a (file, index) parameter pair that every caller fills from one object; core.japiError pairs the CURRENT scanner's file with an index that every caller takes from a lexeme/coords just returned by that scanner or from its CurrentIndex()", 6)
	newErr := c.P.LookupFunc("jerr", "NewJApiError")
	if newErr == nil {
		r.Undecided("C07-SAME-SOURCE", "anchor", "jerr.NewJApiError not found", "")
		return
	}
	// sourceOf: the object an expression reads a file or an index from ("" if unknown), and a flag for parameters
	type src struct {
		obj   string
		param types.Object
	}
	for _, f := range c.libFns() {
		pk := f.Pkg
		params := map[types.Object]bool{}
		for _, fl := range f.Decl.Type.Params.List {
			for _, n := range fl.Names {
				params[pk.TypesInfo.Defs[n]] = true
			}
		}
		sourceOf := func(e ast.Expr) src {
			e = ast.Unparen(e)
			// strip + offset and conversions
			for {
				switch x := e.(type) {
				case *ast.BinaryExpr:
					if x.Op == token.ADD || x.Op == token.SUB {
						e = ast.Unparen(x.X)
						continue
					}
				case *ast.CallExpr:
					if tv, ok := pk.TypesInfo.Types[x.Fun]; ok && tv.IsType() && len(x.Args) == 1 {
						e = ast.Unparen(x.Args[0])
						continue
					}
				}
				break
			}
			switch x := e.(type) {
			case *ast.CallExpr:
				if sel, ok := ast.Unparen(x.Fun).(*ast.SelectorExpr); ok && len(x.Args) == 0 {
					switch sel.Sel.Name {
					case "File", "Begin", "CurrentIndex":
						return src{obj: accessPath(pk, sel.X)}
					}
				}
			case *ast.SelectorExpr:
				if fld := fieldSel(pk, x); fld != nil {
					switch fld.Name() {
					case "file", "begin", "curIndex", "end":
						return src{obj: accessPath(pk, x.X)}
					}
				}
			case *ast.Ident:
				if obj := pk.TypesInfo.Uses[x]; obj != nil && params[obj] {
					return src{param: obj}
				}
				if tv := pk.TypesInfo.Types[x]; tv.Value != nil {
					return src{obj: "const"}
				}
			case *ast.BasicLit:
				return src{obj: "const"}
			}
			return src{}
		}
		for _, call := range callsIn(pk, f.Decl.Body, newErr) {
			if len(call.Args) != 3 {
				continue
			}
			key := f.Name() + " | NewJApiError"
			where := c.pos(call.Pos())
			fs, is := sourceOf(call.Args[1]), sourceOf(call.Args[2])
			switch {
			case fs.obj != "" && fs.obj == is.obj:
				r.Ok("C07-SAME-SOURCE", key, "file and index are both read from "+prettyPath(fs.obj), where)
			case isFreshFile(call.Args[1]) && is.obj == "const":
				r.Ok("C07-SAME-SOURCE", key, "index 0 of a file object made for the path that could not be read", where)
			case fs.obj != "" && is.obj == "const":
				// index 0 of a file the function just made
				r.Ok("C07-SAME-SOURCE", key, "constant index 0 in the file named by the caller (unreadable root file)", where)
			case fs.param != nil && is.param != nil:
				// both parameters: every caller must pass a consistent pair
				bad := c.callersPassConsistentPair(f, fs.param, is.param)
				if bad == "" {
					r.Ok("C07-SAME-SOURCE", key, "(file, index) parameters; every caller fills both from one object", where)
				} else {
					r.Bad("C07-SAME-SOURCE", key, "a caller passes a file and an index that come from different objects: "+bad, where)
				}
			case fs.obj != "" && is.param != nil:
				// file from an object, index from the caller (core.japiError, Scanner.japiError): judged at the callers below
				bad := c.callersIndexFrom(f, is.param, fs.obj)
				if bad == "" {
					r.Ok("C07-SAME-SOURCE", key, "file of "+prettyPath(fs.obj)+"; every caller's index comes from a lexeme/coords/cursor of that same scanner", where)
				} else {
					r.Bad("C07-SAME-SOURCE", key, "the index given by a caller does not come from the object whose file is used: "+bad, where)
				}
			default:
				r.Bad("C07-SAME-SOURCE", key, fmt.Sprintf("cannot tie file (%s) and index (%s) to one source object", exprString(call.Args[1]), exprString(call.Args[2])), where)
			}
		}
	}
}

func isFreshFile(e ast.Expr) bool {
	call, ok := ast.Unparen(e).(*ast.CallExpr)
	return ok && strings.HasSuffix(exprString(call.Fun), "NewFile")
}

// callersPassConsistentPair: for f(…, file, index) every call passes (x.File()/x.file, x.begin/x.Begin()[+..]) of one x.
func (c *Ctx) callersPassConsistentPair(f *Fn, fileParam, idxParam types.Object) string {
	fi, ii := paramIndex(f, fileParam), paramIndex(f, idxParam)
	bad := ""
	for _, g := range c.libFns() {
		pk := g.Pkg
		for _, call := range callsIn(pk, g.Decl.Body, f.Obj) {
			if fi >= len(call.Args) || ii >= len(call.Args) {
				continue
			}
			_ = pk
			a, b := baseObj(c, g, call.Args[fi]), baseObj(c, g, call.Args[ii])
			if a == "" || a != b {
				bad = fmt.Sprintf("%s passes (%s, %s)", g.Name(), exprString(call.Args[fi]), exprString(call.Args[ii]))
			}
		}
	}
	return bad
}

func paramIndex(f *Fn, p types.Object) int {
	i := 0
	for _, fl := range f.Decl.Type.Params.List {
		for _, n := range fl.Names {
			if f.Pkg.TypesInfo.Defs[n] == p {
				return i
			}
			i++
		}
	}
	return -1
}

// baseObj: the object whose File()/file or Begin()/begin/index an expression reads.
func baseObj(c *Ctx, f *Fn, e ast.Expr) string {
	pk := f.Pkg
	e = ast.Unparen(e)
	for {
		switch x := e.(type) {
		case *ast.BinaryExpr:
			if x.Op == token.ADD || x.Op == token.SUB {
				e = ast.Unparen(x.X)
				continue
			}
		case *ast.CallExpr:
			if tv, ok := pk.TypesInfo.Types[x.Fun]; ok && tv.IsType() && len(x.Args) == 1 {
				e = ast.Unparen(x.Args[0])
				continue
			}
		}
		break
	}
	switch x := e.(type) {
	case *ast.CallExpr:
		if sel, ok := ast.Unparen(x.Fun).(*ast.SelectorExpr); ok && len(x.Args) == 0 {
			return accessPath(pk, sel.X)
		}
	case *ast.SelectorExpr:
		if fieldSel(pk, x) != nil {
			return accessPath(pk, x.X)
		}
	}
	return ""
}

// callersIndexFrom: f pairs the file of `fileObj` (e.g. core.scanner) with an index parameter: every caller's index must be
// lexeme.Begin()/coords.Begin() of a lexeme handed over by the scan loop, or <fileObj>.CurrentIndex()[-1].
func (c *Ctx) callersIndexFrom(f *Fn, idxParam types.Object, fileObj string) string {
	ii := paramIndex(f, idxParam)
	bad := ""
	for _, g := range c.libFns() {
		pk := g.Pkg
		for _, call := range callsIn(pk, g.Decl.Body, f.Obj) {
			if ii >= len(call.Args) {
				continue
			}
			a := ast.Unparen(call.Args[ii])
			ok := false
			// x.Begin() where x is a Lexeme/Coords value (parameter or local built from a lexeme); <scanner>.CurrentIndex()-1; s.curIndex
			base := a
			if be, isBe := a.(*ast.BinaryExpr); isBe && (be.Op == token.SUB || be.Op == token.ADD) {
				base = ast.Unparen(be.X)
			}
			switch x := base.(type) {
			case *ast.CallExpr:
				if sel, isSel := ast.Unparen(x.Fun).(*ast.SelectorExpr); isSel {
					t := namedType(pk.TypesInfo.TypeOf(sel.X))
					switch sel.Sel.Name {
					case "Begin":
						if strings.HasSuffix(t, "scanner.Lexeme") || strings.HasSuffix(t, "directive.Coords") {
							ok = true
						}
					case "CurrentIndex":
						ok = true
					}
				}
			case *ast.SelectorExpr:
				if fld := fieldSel(pk, x); fld != nil && fld.Name() == "curIndex" {
					ok = true
				}
			case *ast.Ident:
				// an index parameter passed on (Scanner.japiError(msg, i) from readSchemaWithJsc: s.curIndex + offset)
				ok = true
			case *ast.BasicLit:
			}
			// the constant 0: the beginning of the file, an index every file has
			if k, isK := constInt(pk, a); isK && k == 0 {
				ok = true
			}
			if !ok {
				bad = fmt.Sprintf("%s passes %s", g.Name(), exprString(call.Args[ii]))
			}
		}
	}
	return bad
}

// ---------- constructor discipline by phase ----------

func (c *Ctx) rulePhaseConstructor() {
	r := c.R
	r.Rule("C07-PHASE-CONSTRUCTOR", "functions reachable from compileCore, buildCatalog, compileCatalog and validateCatalog (when core.scanner is the root scanner again) build errors only through Directive.makeError (KeywordError/BodyError/...), never through core.japiError or jerr.NewJApiError directly: otherwise the error names the root file and carries no include trace", 5)
	roots := c.ssaRoots("core:JApiCore.compileCore", "core:JApiCore.buildCatalog", "core:JApiCore.compileCatalog", "core:JApiCore.validateCatalog")
	// buildCatalog calls the per-directive handlers through the dispatch table, which the constructor of the core fills:
	// the handlers are roots of their own
	nHandlers := 0
	for _, h := range c.dispatchTable() {
		if sf := c.P.SSAFunc(h); sf != nil {
			roots = append(roots, sf)
			nHandlers++
		}
	}
	if nHandlers < 10 {
		r.Undecided("C07-PHASE-CONSTRUCTOR", "handlers", fmt.Sprintf("only %d handlers of the dispatch table found", nHandlers), "")
	}
	reach := reachDecls(c.reachableLib(roots, nil))
	newErr := c.P.LookupFunc("jerr", "NewJApiError")
	jerrFn := c.P.LookupFunc("core", "JApiCore.japiError")
	makeErr := c.P.LookupFunc("directive", "Directive.makeError")
	n := 0
	for _, f := range c.libFns() {
		if !reach[f.Obj] || f.Obj == makeErr {
			continue
		}
		n++
		pk := f.Pkg
		bad := ""
		if f.Obj == jerrFn {
			continue // the wrapper itself: its callers are judged
		}
		for _, t := range []*types.Func{newErr, jerrFn} {
			if t == nil {
				continue
			}
			for _, call := range callsIn(pk, f.Decl.Body, t) {
				// a document without any directive has no directive to carry the error: the call is reached only over
				// the true edge of `len(<directive list>) == 0`
				noDirective := buildCFG(f.Decl.Body).establishedAt(call, func(cond ast.Expr, trueEdge bool) bool {
					be, ok := ast.Unparen(cond).(*ast.BinaryExpr)
					if !ok {
						return false
					}
					lc, ok := ast.Unparen(be.X).(*ast.CallExpr)
					if !ok || len(lc.Args) != 1 || exprString(lc.Fun) != "len" {
						return false
					}
					fld := fieldSel(pk, lc.Args[0])
					if fld == nil || !strings.Contains(types.TypeString(fld.Type(), nil), "directive.Directive") {
						return false
					}
					k, isK := constInt(pk, be.Y)
					return isK && k == 0 && ((be.Op == token.EQL && trueEdge) || (be.Op == token.NEQ && !trueEdge) || (be.Op == token.GTR && !trueEdge))
				}, nil)
				if noDirective {
					r.Ok("C07-PHASE-CONSTRUCTOR", f.Name()+" | no directive", "the error is about a document without any directive: there is none to locate it on; it is placed at the beginning of the root file", c.pos(call.Pos()))
					continue
				}
				bad = t.Name() + " at " + c.pos(call.Pos())
			}
		}
		if bad != "" {
			r.Bad("C07-PHASE-CONSTRUCTOR", f.Name(), "after scanning, an error is built with "+bad+": it is located in the root file whatever file the directive came from, without include trace", c.pos(f.Decl.Pos()))
		}
		// ... and nothing else is read from the scanner either: after the scan core.scanner is the scanner of the ROOT
		// file again, and what its text says (does it spell PASTE? how long is it?) says nothing about the project,
		// whose directives may all come from included files
		if scn := c.coreField("scanner"); scn != nil {
			ast.Inspect(f.Decl.Body, func(nd ast.Node) bool {
				sel, ok := nd.(*ast.SelectorExpr)
				if !ok {
					return true
				}
				if fld := fieldSel(pk, sel); fld != nil && fld.Origin() == scn.Origin() {
					r.Bad("C07-PHASE-CONSTRUCTOR", f.Name()+" | reads core.scanner", "a function of the post-scan phases reads the scanner of the core: it is the scanner of the root file there, so whatever is decided from its file or its position holds for the root file only - a project whose directives sit in included files is treated differently", c.pos(sel.Pos()))
					return false
				}
				return true
			})
		}
	}
	r.Ok("C07-PHASE-CONSTRUCTOR", "post-scan phases", fmt.Sprintf("%d functions reachable from the four post-scan phases; violations listed separately", n), "")
	// (that makeError attaches the trace on every path is C07-DIRECTIVE-TRACE)
	// errors with an index into the body need a body
	bei := c.P.LookupFunc("directive", "Directive.BodyErrorIndex")
	if bei != nil {
		for _, f := range c.libFns() {
			calls := callsIn(f.Pkg, f.Decl.Body, bei)
			for i, call := range calls {
				key := fmt.Sprintf("%s | BodyErrorIndex #%d", f.Name(), i+1)
				if c.bodySetEvidence(f, call) {
					r.Ok("C07-PHASE-CONSTRUCTOR", key, "the directive's body is known to be set (IsSet test, or the schema error can only come from a body)", c.pos(call.Pos()))
				} else {
					r.Bad("C07-PHASE-CONSTRUCTOR", key, "BodyErrorIndex is used although the directive may have no body: BodyCoords.File() is nil and building the location crashes", c.pos(call.Pos()))
				}
			}
		}
	}
}

// bodySetEvidence: a dominating BodyCoords.IsSet() test on the same directive, or a named site where the error of kind
// kit.Error can only originate from parsing the body.
var bodySetExceptions = map[string]string{
	"core.jschemaToJAPIError":           "called with raw user types / enums whose body was required when their schema was created (buildUserTypes / buildRule test IsSet)",
	"core.(*JApiCore).checkUserType":    "raw user types have a body (buildUserTypes returns BodyIsEmpty otherwise)",
	"catalog.adoptErrorForResponseBody": "",
}

func (c *Ctx) bodySetEvidence(f *Fn, call *ast.CallExpr) bool {
	sel, ok := ast.Unparen(call.Fun).(*ast.SelectorExpr)
	if !ok {
		return false
	}
	isSetM := c.P.LookupFunc("directive", "Coords.IsSet")
	// "<the directive>.BodyCoords.IsSet()" holds at the call: tested in this function in whatever form (early return,
	// enclosing if, case clause, predicate helper), or by every caller when the directive is a parameter
	fact := func(g *Fn, cond ast.Expr, holds bool, subj ast.Expr) bool {
		// a local that keeps the result of the test (hasBody := d.BodyCoords.IsSet()) stands for the test
		cl, ok := ast.Unparen(unalias(g, cond)).(*ast.CallExpr)
		if !ok || !holds || isSetM == nil || callee(g.Pkg, cl) != isSetM {
			return false
		}
		cs, ok := ast.Unparen(cl.Fun).(*ast.SelectorExpr)
		if !ok {
			return false
		}
		bc, ok := ast.Unparen(cs.X).(*ast.SelectorExpr)
		if !ok || bc.Sel.Name != "BodyCoords" {
			return false
		}
		return exprString(stripRef(unalias(g, bc.X))) == exprString(stripRef(unalias(g, subj)))
	}
	if c.establishedUpward(f, call, sel.X, fact, 0) {
		return true
	}
	_, ok = bodySetExceptions[f.Name()]
	return ok
}

// ---------- every frame is recorded ----------

// ruleTraceRecorder: the include trace of an error is filled one frame at a time (OccurredInFile is called once per
// suspended file, innermost first). A recorder that leaves on some path without appending drops a frame: the trace no
// longer lists exactly the chain that was followed.
func (c *Ctx) ruleTraceRecorder(rule string) {
	r := c.R
	r.Rule(rule, "every function of package jerr that appends to the include trace of an error (a field of jerr.JApiError of slice type that is appended to) does so on every path from its entry to every return, and through no condition on the length of the trace: a frame handed to the recorder is recorded", 1)
	pk := c.P.Pkg("jerr")
	if pk == nil {
		r.Undecided(rule, "anchor", "package jerr not loaded", "")
		return
	}
	n := 0
	for _, f := range c.libFns() {
		if f.Pkg != pk {
			continue
		}
		var appends []ast.Node
		var fldName string
		ast.Inspect(f.Decl.Body, func(nd ast.Node) bool {
			as, ok := nd.(*ast.AssignStmt)
			if !ok || len(as.Lhs) != 1 || len(as.Rhs) != 1 {
				return true
			}
			fld := fieldSel(pk, as.Lhs[0])
			if fld == nil || c.structOfField(fld) != "jerr.JApiError" {
				return true
			}
			if _, isSl := fld.Type().Underlying().(*types.Slice); !isSl {
				return true
			}
			call, ok := ast.Unparen(as.Rhs[0]).(*ast.CallExpr)
			if !ok || exprString(call.Fun) != "append" || len(call.Args) < 2 || fieldSel(pk, call.Args[0]) != fld {
				return true
			}
			appends = append(appends, as)
			fldName = fld.Name()
			return true
		})
		if len(appends) == 0 {
			continue
		}
		n++
		fc := c.cfgOf(f)
		key := f.Name() + " | append to " + fldName
		bad := ""
		ast.Inspect(f.Decl.Body, func(nd ast.Node) bool {
			if _, isLit := nd.(*ast.FuncLit); isLit {
				return false
			}
			if ret, ok := nd.(*ast.ReturnStmt); ok && fc.reachesFromEntryAvoiding(ret, appends) {
				bad = "the return at " + c.pos(ret.Pos()) + " is reached without recording the frame"
			}
			return true
		})
		// the end of the body
		if bad == "" && len(f.Decl.Body.List) > 0 {
			last := f.Decl.Body.List[len(f.Decl.Body.List)-1]
			if _, isRet := last.(*ast.ReturnStmt); !isRet {
				isAppend := false
				for _, a := range appends {
					if a == ast.Node(last) {
						isAppend = true
					}
				}
				if !isAppend && fc.reachesFromEntryAvoiding(last, appends) {
					bad = "the end of the function is reached without recording the frame"
				}
			}
		}
		if bad == "" {
			r.Ok(rule, key, "every path through the recorder appends the frame", c.pos(appends[0].Pos()))
		} else {
			r.Bad(rule, key, bad+": the include trace of an error lists fewer INCLUDE lines than were followed", c.pos(appends[0].Pos()))
		}
	}
	if n == 0 {
		r.Undecided(rule, "sites", "no function of package jerr appends to a slice field of JApiError", "")
	}
}

// ---------- who constructs ----------

func (c *Ctx) ruleWhoConstructs() {
	r := c.R
	r.Rule("C07-WHO-CONSTRUCTS", "jerr.JApiError and jerr.Location values are built (composite literal) and their Location fields assigned only inside package jerr: every Line/Column/Quote goes through NewLocation", 1)
	n := 0
	for _, f := range c.libFns() {
		pk := f.Pkg
		if pk.PkgPath == prog.ModulePath+"/jerr" {
			continue
		}
		ast.Inspect(f.Decl.Body, func(nd ast.Node) bool {
			switch x := nd.(type) {
			case *ast.CompositeLit:
				t := namedType(pk.TypesInfo.TypeOf(x))
				if t == prog.ModulePath+"/jerr.JApiError" || t == prog.ModulePath+"/jerr.Location" {
					n++
					r.Bad("C07-WHO-CONSTRUCTS", f.Name()+" | literal of "+shortType(t), "an error/location value is built outside package jerr: its line, column and quote are not computed from (file, index)", c.pos(x.Pos()))
				}
			case *ast.AssignStmt:
				for _, l := range x.Lhs {
					if fld := fieldSel(pk, l); fld != nil && fld.Pkg() != nil && fld.Pkg().Path() == prog.ModulePath+"/jerr" {
						switch fld.Name() {
						case "File", "Index", "Line", "Column", "Quote", "Location":
							n++
							r.Bad("C07-WHO-CONSTRUCTS", f.Name()+" | assigns "+fld.Name(), "a location field of an error is overwritten outside package jerr", c.pos(x.Pos()))
						}
					}
				}
			}
			return true
		})
	}
	if n == 0 {
		r.Ok("C07-WHO-CONSTRUCTS", "library", "no literal of JApiError/Location and no store to location fields outside package jerr", "")
	}
}

// ruleLineSource: inside package jerr every value stored into Line/Column/atLine comes from NewLocation / LineAndColumn.
func (c *Ctx) ruleLineSource() {
	r := c.R
	r.Rule("C07-LINE-SOURCE", "in package jerr every value stored into a Line, Column or atLine field comes from NewLocation(f, i) or Content().LineAndColumn(i) (which understands LF, CR and CRLF files): no second line-counting routine exists", 2)
	pk := c.P.Pkg("jerr")
	if pk == nil {
		r.Undecided("C07-LINE-SOURCE", "anchor", "package jerr not loaded", "")
		return
	}
	n := 0
	var curFn *Fn
	var okSource func(e ast.Expr) bool
	okSource = func(e ast.Expr) bool {
		e = ast.Unparen(e)
		// a local every definition of which comes from such a source (line, column := content.LineAndColumn(i))
		if id, ok := e.(*ast.Ident); ok && curFn != nil {
			obj := pk.TypesInfo.Uses[id]
			if v, isVar := obj.(*types.Var); isVar && !v.IsField() && v.Parent() != pk.Types.Scope() {
				defs, good := 0, true
				ast.Inspect(curFn.Decl.Body, func(m ast.Node) bool {
					as, isAs := m.(*ast.AssignStmt)
					if !isAs {
						return true
					}
					for i, l := range as.Lhs {
						lid, isId := ast.Unparen(l).(*ast.Ident)
						if !isId || (pk.TypesInfo.Defs[lid] != obj && pk.TypesInfo.Uses[lid] != obj) {
							continue
						}
						defs++
						src := as.Rhs[0]
						if len(as.Rhs) == len(as.Lhs) {
							src = as.Rhs[i]
						}
						if sid, isSame := ast.Unparen(src).(*ast.Ident); isSame && pk.TypesInfo.Uses[sid] == obj {
							good = false
						} else if !okSource(src) {
							good = false
						}
					}
					return true
				})
				return defs > 0 && good
			}
		}
		// NewLocation(...).Line
		if sel, ok := e.(*ast.SelectorExpr); ok {
			if call, ok := ast.Unparen(sel.X).(*ast.CallExpr); ok {
				if cal := callee(pk, call); cal != nil && cal.Name() == "NewLocation" {
					return true
				}
			}
		}
		if call, ok := e.(*ast.CallExpr); ok {
			if cal := callee(pk, call); cal != nil && cal.Name() == "LineAndColumn" {
				return true
			}
		}
		return false
	}
	for _, f := range c.libFns() {
		if f.Pkg != pk {
			continue
		}
		curFn = f
		ast.Inspect(f.Decl.Body, func(nd ast.Node) bool {
			switch x := nd.(type) {
			case *ast.KeyValueExpr:
				if kid, ok := x.Key.(*ast.Ident); ok && (kid.Name == "Line" || kid.Name == "Column" || kid.Name == "atLine") {
					n++
					key := f.Name() + " | " + kid.Name
					if okSource(x.Value) {
						r.Ok("C07-LINE-SOURCE", key, "from NewLocation/LineAndColumn", c.pos(x.Pos()))
					} else {
						r.Bad("C07-LINE-SOURCE", key, "a line/column number is computed by something else than NewLocation/LineAndColumn ("+exprString(x.Value)+"): it disagrees with the error's own line for CR or CRLF files", c.pos(x.Pos()))
					}
				}
			case *ast.AssignStmt:
				for i, l := range x.Lhs {
					if fld := fieldSel(pk, l); fld != nil && (fld.Name() == "Line" || fld.Name() == "Column" || fld.Name() == "atLine") {
						n++
						key := f.Name() + " | " + fld.Name()
						src := x.Rhs[0]
						if i < len(x.Rhs) && len(x.Rhs) == len(x.Lhs) {
							src = x.Rhs[i]
						}
						if okSource(src) {
							r.Ok("C07-LINE-SOURCE", key, "from NewLocation/LineAndColumn", c.pos(x.Pos()))
						} else {
							r.Bad("C07-LINE-SOURCE", key, "a line/column number is computed by something else than NewLocation/LineAndColumn ("+exprString(src)+")", c.pos(x.Pos()))
						}
					}
				}
			}
			return true
		})
	}
	if n == 0 {
		r.Undecided("C07-LINE-SOURCE", "sites", "no assignment of Line/Column/atLine found in package jerr", "")
	}
}

// ---------- scan-time trace ----------

func (c *Ctx) ruleScanTrace() {
	r := c.R
	r.Rule("C07-SCAN-TRACE", "scanProject defers AddIncludeTraceToError on its NAMED result; the trace is added innermost frame first (index from len-1 down to 0) and only when the error has none yet", 3)
	f := c.fn("core", "JApiCore.scanProject")
	if f == nil {
		r.Undecided("C07-SCAN-TRACE", "anchor", "scanProject not found", "")
		return
	}
	pk := f.Pkg
	var named types.Object
	if f.Decl.Type.Results != nil && len(f.Decl.Type.Results.List) == 1 && len(f.Decl.Type.Results.List[0].Names) == 1 {
		named = pk.TypesInfo.Defs[f.Decl.Type.Results.List[0].Names[0]]
	}
	ok := false
	for _, st := range f.Decl.Body.List {
		d, isD := st.(*ast.DeferStmt)
		if !isD {
			continue
		}
		ast.Inspect(d, func(n ast.Node) bool {
			if call, isC := n.(*ast.CallExpr); isC {
				if cal := callee(pk, call); cal != nil && cal.Name() == "AddIncludeTraceToError" && len(call.Args) == 1 {
					if id, isId := ast.Unparen(call.Args[0]).(*ast.Ident); isId && pk.TypesInfo.Uses[id] == named && named != nil {
						ok = true
					}
				}
			}
			return true
		})
	}
	// the stack of suspended scanners is the include chain of the file being scanned, and of no other: an error about a
	// directive of another file (still pending when an INCLUDE switched files; its own trace was captured when it was
	// scanned and is empty for the root file) must not be given the live stack. The deferred attachment therefore has to
	// be reached only with "the error lies in the current scanner's file" established.
	stackAdd := c.P.LookupFunc("scanner", "Stack.AddIncludeTraceToError")
	nLive := 0
	for _, hf := range c.libFns() {
		if hf.Pkg.PkgPath == prog.ModulePath+"/scanner" {
			continue // the stack's own code
		}
		hpk := hf.Pkg
		inspectWithStack(hf.Decl.Body, func(n ast.Node, stack []ast.Node) bool {
			call, isC := n.(*ast.CallExpr)
			if !isC || len(call.Args) != 1 {
				return true
			}
			if cal := callee(hpk, call); cal == nil || stackAdd == nil || cal != stackAdd {
				return true
			}
			nLive++
			// the innermost function body the call lies in
			body := hf.Decl.Body
			for i := len(stack) - 1; i >= 0; i-- {
				if fl, ok := stack[i].(*ast.FuncLit); ok {
					body = fl.Body
					break
				}
			}
			lcf := buildCFG(body)
			errObj := hpk.TypesInfo.Uses[identOf(call.Args[0])]
			sameFile := func(cond ast.Expr, holds bool) bool {
				be, ok := ast.Unparen(cond).(*ast.BinaryExpr)
				if !ok || !((be.Op == token.EQL && holds) || (be.Op == token.NEQ && !holds)) {
					return false
				}
				// one side: <the error>.File ; other side: File() of the current scanner
				errSide, scanSide := false, false
				for _, side := range []ast.Expr{be.X, be.Y} {
					if fld := fieldSel(hpk, side); fld != nil && fld.Name() == "File" {
						if id := identOf(ast.Unparen(side).(*ast.SelectorExpr).X); id != nil && errObj != nil && hpk.TypesInfo.Uses[id] == errObj {
							errSide = true
						}
					}
					if sc, ok := ast.Unparen(side).(*ast.CallExpr); ok {
						if m := callee(hpk, sc); m != nil && m.Name() == "File" {
							if sel, ok := ast.Unparen(sc.Fun).(*ast.SelectorExpr); ok {
								if fld := fieldSel(hpk, sel.X); fld != nil && fld.Name() == "scanner" {
									scanSide = true
								}
							}
						}
					}
				}
				return errSide && scanSide
			}
			key := "live stack only for the current file"
			if hf.Obj != f.Obj {
				key += " | " + hf.Name()
			}
			if lcf.establishedAt(call, sameFile, nil) {
				r.Ok("C07-SCAN-TRACE", key, "the live stack is attached only when the error's file is the current scanner's file", c.pos(call.Pos()))
			} else {
				r.Bad("C07-SCAN-TRACE", key, "the live stack of suspended scanners is attached to an error without knowing that the error lies in the file being scanned: an error about a directive of the ROOT file that was still pending when an INCLUDE switched files (wrong context, raised at the first keyword of the included file) gets the trace 'root.jst:<line of the INCLUDE>', an include chain that was never followed", c.pos(call.Pos()))
			}
			return true
		})
	}
	_ = nLive
	// no shadowing return that bypasses the named result is possible in Go: `return je` assigns the named result
	if ok {
		r.Ok("C07-SCAN-TRACE", "deferred attachment", "defer ... AddIncludeTraceToError(<named result>)", c.pos(f.Decl.Pos()))
	} else {
		r.Bad("C07-SCAN-TRACE", "deferred attachment", "scan-time errors do not get the live include stack (no deferred AddIncludeTraceToError on the named result)", c.pos(f.Decl.Pos()))
	}
	g := c.fn("scanner", "addIncludeTraceToError")
	if g == nil {
		r.Undecided("C07-SCAN-TRACE", "order", "scanner.addIncludeTraceToError not found", "")
		return
	}
	down, once := false, false
	ast.Inspect(g.Decl.Body, func(n ast.Node) bool {
		switch x := n.(type) {
		case *ast.ForStmt:
			if p, ok := x.Post.(*ast.IncDecStmt); ok && p.Tok == token.DEC {
				if as, ok := x.Init.(*ast.AssignStmt); ok && len(as.Rhs) == 1 {
					if be, ok := ast.Unparen(as.Rhs[0]).(*ast.BinaryExpr); ok && be.Op == token.SUB {
						down = true
					}
				}
			}
		}
		return true
	})
	// attached once: every path to the loop that emits the frames crosses the "has no trace yet" edge of a test of
	// HasStackTrace (whatever form the test has: own if, operand of ||, switch case)
	var emit ast.Node
	ast.Inspect(g.Decl.Body, func(n ast.Node) bool {
		switch x := n.(type) {
		case *ast.ForStmt:
			if emit == nil {
				emit = x.Body
				if x.Init != nil {
					emit = x.Init
				}
			}
		case *ast.RangeStmt:
			if emit == nil {
				emit = x.X
			}
		}
		return true
	})
	if emit != nil {
		gcf := buildCFG(g.Decl.Body)
		once = gcf.establishedAt(emit, func(cond ast.Expr, trueEdge bool) bool {
			if call, ok := ast.Unparen(cond).(*ast.CallExpr); ok {
				if cal := callee(g.Pkg, call); cal != nil && cal.Name() == "HasStackTrace" {
					return !trueEdge
				}
			}
			return false
		}, nil)
	}
	if !down {
		// not the classic `for i := len-1; i >= 0; i--`: decide on the abstract evaluation of the two tracers: on every
		// path the frames handed to OccurredInFile are stack[len-1], stack[len-2], ... in this order
		down = c.traceOrderByEvaluation()
	}
	if down {
		r.Ok("C07-SCAN-TRACE", "innermost first", "the frames are emitted from the top of the stack (len-1) downwards", c.pos(g.Decl.Pos()))
	} else {
		r.Bad("C07-SCAN-TRACE", "innermost first", "the include trace is not emitted innermost first", c.pos(g.Decl.Pos()))
	}
	if once {
		r.Ok("C07-SCAN-TRACE", "attached once", "an error that already has a trace is left alone", c.pos(g.Decl.Pos()))
	} else {
		r.Bad("C07-SCAN-TRACE", "attached once", "a trace can be attached twice", c.pos(g.Decl.Pos()))
	}
}

// traceOrderByEvaluation: Stack.AddIncludeTraceToError is evaluated abstractly (three rounds of the loop); the index
// terms of the stack elements whose file is handed to OccurredInFile must start at or below len(stack)-1 and go
// strictly downwards on every path.
func (c *Ctx) traceOrderByEvaluation() bool {
	f := c.P.LookupFunc("scanner", "Stack.AddIncludeTraceToError")
	if f == nil {
		return false
	}
	sf := c.P.SSAFunc(f)
	if sf == nil {
		return false
	}
	ev := c.newEval()
	ev.MaxPaths = 2000
	ev.WantCall = func(fn *ssa.Function) bool { return fn.Name() == "OccurredInFile" }
	idxRe := regexp.MustCompile(`\[len\([^\[\]]*\)(\{([+-]\d+)\})?\]`)
	n := 0
	for _, o := range ev.Run(sf, []ssaeval.Value{ssaeval.Obj("s"), ssaeval.Obj("je")}) {
		if o.Panics {
			return false
		}
		want := int64(-1)
		for _, e := range o.Events {
			if e.Kind != "call" || len(e.Args) < 2 {
				continue
			}
			m := idxRe.FindStringSubmatch(e.Args[1].Term())
			if m == nil {
				if os.Getenv("JSVERIF_DEBUG") == "trace" {
					fmt.Println("no index in", e.Args[1].Term())
				}
				return false
			}
			k := int64(0)
			if m[2] != "" {
				k, _ = strconv.ParseInt(m[2], 10, 64)
			}
			// strictly downwards from the top; an iteration whose element matched no case of the type switch emits nothing
			if k > want {
				if os.Getenv("JSVERIF_DEBUG") == "trace" {
					fmt.Println("index", k, "want", want, e.Args[1].Term())
				}
				return false
			}
			want = k - 1
			n++
		}
	}
	return n >= 3
}

// ---------- tracer memo ----------

func (c *Ctx) ruleMemoKey() {
	r := c.R
	r.Rule("C07-MEMO-KEY", "Stack.ToDirectiveIncludeTracer is a get-or-compute memo: (value) the tracer stored in the cache is computed from the live stack only, by a function that reads neither the cache nor anything but its argument; (key) the hash that keys the cache must determine that value: the hash pushed for a frame has to mix the file of the frame, the position of the INCLUDE and the hash of the frames below", 2)
	f := c.fn("scanner", "Stack.ToDirectiveIncludeTracer")
	push := c.fn("scanner", "Stack.Push")
	if f == nil || push == nil {
		r.Undecided("C07-MEMO-KEY", "anchor", "Stack.ToDirectiveIncludeTracer / Push not found", "")
		return
	}
	pk := f.Pkg
	// cache field: map[...]directive.IncludeTracer
	var cache, stackF, hashesF *types.Var
	if tn := c.P.LookupType("scanner", "Stack"); tn != nil {
		st := tn.Type().Underlying().(*types.Struct)
		for i := 0; i < st.NumFields(); i++ {
			fld := st.Field(i)
			if m, ok := fld.Type().Underlying().(*types.Map); ok && strings.HasSuffix(namedType(m.Elem()), "directive.IncludeTracer") {
				cache = fld
			}
			if sl, ok := fld.Type().Underlying().(*types.Slice); ok {
				if strings.HasSuffix(namedType(sl.Elem()), "scanner.stackItem") {
					stackF = fld
				}
				if b, ok := sl.Elem().Underlying().(*types.Basic); ok && b.Kind() == types.Uint64 {
					hashesF = fld
				}
			}
		}
	}
	if cache == nil || stackF == nil || hashesF == nil {
		r.Undecided("C07-MEMO-KEY", "fields", "cache / stack / hashes fields of scanner.Stack not recognised", c.pos(f.Decl.Pos()))
		return
	}
	// value: the expression stored into the cache
	var stored ast.Expr
	ast.Inspect(f.Decl.Body, func(n ast.Node) bool {
		if as, ok := n.(*ast.AssignStmt); ok && len(as.Lhs) == 1 && len(as.Rhs) == 1 {
			if b, _, ok := indexOn(pk, as.Lhs[0]); ok && fieldSel(pk, b) == cache {
				stored = as.Rhs[0]
			}
		}
		return true
	})
	valueOK, why := false, "no store into the cache found"
	if id, ok := ast.Unparen(stored).(*ast.Ident); ok {
		obj := pk.TypesInfo.Uses[id]
		ast.Inspect(f.Decl.Body, func(n ast.Node) bool {
			as, ok := n.(*ast.AssignStmt)
			if !ok || len(as.Lhs) != 1 || len(as.Rhs) != 1 {
				return true
			}
			if lid, ok := as.Lhs[0].(*ast.Ident); !ok || pk.TypesInfo.Defs[lid] != obj {
				return true
			}
			call, ok := ast.Unparen(as.Rhs[0]).(*ast.CallExpr)
			if !ok {
				why = "the cached value is not the result of a constructor call"
				return true
			}
			cal := callee(pk, call)
			onlyStack := len(call.Args) == 1 && fieldSel(pk, call.Args[0]) == stackF
			if cal == nil || !onlyStack {
				why = "the cached tracer is not built by a function of the live stack alone (" + exprString(as.Rhs[0]) + ")"
				return true
			}
			// the constructor (and what it calls in the package) must not read the cache and must allocate its own slice
			readsCache, makes := false, false
			for _, g := range c.reachableInPkg(c.fnOf(cal)) {
				ast.Inspect(g.Decl.Body, func(m ast.Node) bool {
					if sel, ok := m.(*ast.SelectorExpr); ok && fieldSel(g.Pkg, sel) == cache {
						readsCache = true
					}
					if cl, ok := m.(*ast.CallExpr); ok {
						if mid, ok := cl.Fun.(*ast.Ident); ok && mid.Name == "make" {
							makes = true
						}
					}
					return true
				})
			}
			switch {
			case readsCache:
				why = "the tracer constructor reads the cache: cached values are built from other cached values (shared backing arrays)"
			case !makes:
				why = "the tracer constructor does not allocate its own item slice"
			default:
				valueOK = true
			}
			return true
		})
	} else if stored != nil {
		why = "the cached value is not a variable built by a constructor call"
	}
	if valueOK {
		r.Ok("C07-MEMO-KEY", "value", "the cached tracer is newDirectiveIncludeTracer(s.stack): a fresh slice built from the live stack only", c.pos(f.Decl.Pos()))
	} else {
		r.Bad("C07-MEMO-KEY", "value", why, c.pos(f.Decl.Pos()))
	}
	// key: what does the hash appended in Push depend on?
	deps := map[string]bool{}
	var appended ast.Expr
	ast.Inspect(push.Decl.Body, func(n ast.Node) bool {
		if as, ok := n.(*ast.AssignStmt); ok && len(as.Lhs) == 1 && len(as.Rhs) == 1 && fieldSel(push.Pkg, as.Lhs[0]) == hashesF {
			if call, ok := ast.Unparen(as.Rhs[0]).(*ast.CallExpr); ok && exprString(call.Fun) == "append" && len(call.Args) == 2 {
				appended = call.Args[1]
			}
		}
		return true
	})
	if appended == nil {
		r.Bad("C07-MEMO-KEY", "key", "Push does not record a hash for the new frame", c.pos(push.Decl.Pos()))
		return
	}
	// transitive dependencies of the appended expression on Push's parameters and on s.hashes
	var paramNames []string
	paramObj := map[types.Object]string{}
	for _, fl := range push.Decl.Type.Params.List {
		for _, n := range fl.Names {
			paramObj[push.Pkg.TypesInfo.Defs[n]] = n.Name
			paramNames = append(paramNames, n.Name)
		}
	}
	var visit func(e ast.Expr, depth int)
	lossy := ""
	seen := map[types.Object]bool{}
	visit = func(e ast.Expr, depth int) {
		if depth > 6 {
			return
		}
		ast.Inspect(e, func(n ast.Node) bool {
			switch x := n.(type) {
			case *ast.Ident:
				obj := push.Pkg.TypesInfo.Uses[x]
				if nm, ok := paramObj[obj]; ok {
					deps[nm] = true
				} else if v, ok := obj.(*types.Var); ok && !v.IsField() && !seen[obj] {
					seen[obj] = true
					// local: follow its definition
					ast.Inspect(push.Decl.Body, func(m ast.Node) bool {
						if as, ok := m.(*ast.AssignStmt); ok {
							for i, l := range as.Lhs {
								if lid, ok := l.(*ast.Ident); ok && push.Pkg.TypesInfo.Defs[lid] == obj {
									if len(as.Rhs) == 1 {
										visit(as.Rhs[0], depth+1)
									} else if i < len(as.Rhs) {
										visit(as.Rhs[i], depth+1)
									}
								}
							}
						}
						return true
					})
				}
			case *ast.SelectorExpr:
				if fieldSel(push.Pkg, x) == hashesF {
					deps["<hash of the frames below>"] = true
				}
			case *ast.CallExpr:
				// a method of Stack may read s.hashes itself
				if cal := callee(push.Pkg, x); cal != nil {
					if g := c.fnOf(cal); g != nil && g.Pkg == push.Pkg {
						ast.Inspect(g.Decl.Body, func(m ast.Node) bool {
							if sel, ok := m.(*ast.SelectorExpr); ok && fieldSel(g.Pkg, sel) == hashesF {
								deps["<hash of the frames below>"] = true
							}
							// what is hashed must be the value itself: a function that maps different inputs to
							// one output (base name, lower case, trimming, cutting) makes different frames share a key
							if lc, ok := m.(*ast.CallExpr); ok {
								if lf := callee(g.Pkg, lc); lf != nil && lf.Pkg() != nil {
									switch lf.Pkg().Path() {
									case "path", "path/filepath":
										switch lf.Name() {
										case "Base", "Ext", "Dir", "VolumeName":
											lossy = lf.Pkg().Name() + "." + lf.Name()
										}
									case "strings", "bytes":
										switch {
										case strings.HasPrefix(lf.Name(), "To"), strings.HasPrefix(lf.Name(), "Trim"), strings.HasPrefix(lf.Name(), "Split"),
											strings.HasPrefix(lf.Name(), "Replace"), strings.HasPrefix(lf.Name(), "Cut"), lf.Name() == "Fields", lf.Name() == "Title", lf.Name() == "Map":
											lossy = lf.Pkg().Name() + "." + lf.Name()
										}
									}
								}
							}
							if se, ok := m.(*ast.SliceExpr); ok {
								if b, isB := g.Pkg.TypesInfo.TypeOf(se.X).Underlying().(*types.Basic); isB && b.Info()&types.IsString != 0 {
									lossy = "a substring (" + exprString(se) + ")"
								}
							}
							return true
						})
					}
				}
			}
			return true
		})
	}
	visit(appended, 0)
	if lossy != "" {
		r.Bad("C07-MEMO-KEY", "key is lossy", "the frame hash is computed through "+lossy+", which maps different files to the same text: two frames that differ only in what it drops share a cache key, and a directive gets the include trace of another file", c.pos(push.Decl.Pos()))
	} else {
		r.Ok("C07-MEMO-KEY", "key is lossy", "what is hashed is not passed through a function that merges different names (base name, case folding, trimming, cutting)", c.pos(push.Decl.Pos()))
	}
	var missing []string
	for _, need := range append(paramNames, "<hash of the frames below>") {
		if !deps[need] {
			missing = append(missing, need)
		}
	}
	sort.Strings(missing)
	if len(missing) == 0 {
		r.Ok("C07-MEMO-KEY", "key", "the frame hash mixes the scanner's file, the INCLUDE position and the hash of the frames below", c.pos(push.Decl.Pos()))
	} else {
		r.Bad("C07-MEMO-KEY", "key ignores "+strings.Join(missing, ", "), "the cache key of the include tracer is computed from less than the cached value depends on (ignored: "+strings.Join(missing, ", ")+"): a directive of a file that is included a second time, or from another place, gets the trace of the first INCLUDE", c.pos(push.Decl.Pos()))
	}
}

// ruleDirectiveTrace: after scanning, every error goes through the constructors of package directive
// (C07-PHASE-CONSTRUCTOR). They are the one place where the include chain captured with the directive is attached, so
// they must attach it whatever the message says: on every path from the construction of the error to its return.
func (c *Ctx) ruleDirectiveTrace() {
	r := c.R
	r.Rule("C07-DIRECTIVE-TRACE", "in package directive, wherever an error is built with jerr.NewJApiError, every path from there to a return of that error passes a call of AddIncludeTraceToError on the directive's own tracer with the error as argument: the include chain does not depend on the wording of the message", 1)
	pk := c.P.Pkg("directive")
	if pk == nil {
		r.Undecided("C07-DIRECTIVE-TRACE", "anchor", "package directive not found", "")
		return
	}
	n := 0
	for _, f := range c.libFns() {
		if f.Pkg != pk {
			continue
		}
		var news []*ast.CallExpr
		ast.Inspect(f.Decl.Body, func(nd ast.Node) bool {
			if call, ok := nd.(*ast.CallExpr); ok {
				if cal := callee(f.Pkg, call); cal != nil && cal.Name() == "NewJApiError" && cal.Pkg() != nil && strings.HasSuffix(cal.Pkg().Path(), "/jerr") {
					news = append(news, call)
				}
			}
			return true
		})
		if len(news) == 0 {
			continue
		}
		f0 := f
		for _, nc := range news {
			f := f0
			fc := c.cfgOf(f)
			n++
			key := f.Name() + " | " + exprString(nc.Fun)
			// the variable the error is kept in
			var errObj types.Object
			ast.Inspect(f.Decl.Body, func(nd ast.Node) bool {
				if as, ok := nd.(*ast.AssignStmt); ok && len(as.Lhs) == 1 && len(as.Rhs) == 1 && ast.Unparen(as.Rhs[0]) == ast.Expr(nc) {
					if id, ok := as.Lhs[0].(*ast.Ident); ok {
						if o := f.Pkg.TypesInfo.Defs[id]; o != nil {
							errObj = o
						} else {
							errObj = f.Pkg.TypesInfo.Uses[id]
						}
					}
				}
				return true
			})
			af := f
			var origin ast.Node = nc
			if errObj == nil {
				// handed straight to a helper of the package: the obligation moves to the helper's parameter
				inspectWithStack(f.Decl.Body, func(nd ast.Node, stack []ast.Node) bool {
					if nd != ast.Node(nc) || len(stack) < 1 {
						return true
					}
					outer, ok := stack[len(stack)-1].(*ast.CallExpr)
					if !ok {
						return true
					}
					g := c.fnOf(callee(f.Pkg, outer))
					if g == nil || g.Pkg != pk {
						return true
					}
					for i, a := range outer.Args {
						if ast.Unparen(a) == ast.Expr(nc) {
							if po := paramObjAt(g, i); po != nil {
								af, errObj, origin = g, po, nil
							}
						}
					}
					return true
				})
			}
			if errObj == nil {
				r.Bad("C07-DIRECTIVE-TRACE", key, "the error is built and handed on without being kept: no include chain can be attached to it", c.pos(nc.Pos()))
				continue
			}
			if af != f {
				f, fc = af, c.cfgOf(af)
			}
			isErr := func(e ast.Expr) bool {
				id, ok := ast.Unparen(e).(*ast.Ident)
				return ok && f.Pkg.TypesInfo.Uses[id] == errObj
			}
			var traces, rets []ast.Node
			ast.Inspect(f.Decl.Body, func(nd ast.Node) bool {
				switch x := nd.(type) {
				case *ast.CallExpr:
					if cal := callee(f.Pkg, x); cal != nil && cal.Name() == "AddIncludeTraceToError" && len(x.Args) == 1 && isErr(x.Args[0]) {
						if sel, ok := ast.Unparen(x.Fun).(*ast.SelectorExpr); ok {
							if fv := fieldSel(f.Pkg, sel.X); fv != nil && isRecvField(f, sel.X) {
								traces = append(traces, x)
							}
						}
					}
				case *ast.ReturnStmt:
					for _, e := range x.Results {
						if isErr(e) {
							rets = append(rets, x)
						}
					}
				}
				return true
			})
			bad := false
			for _, ret := range rets {
				if (origin != nil && fc.reachesAvoiding(origin, ret, traces)) || (origin == nil && fc.reachesFromEntryAvoiding(ret, traces)) {
					bad = true
					r.Bad("C07-DIRECTIVE-TRACE", key, "a path from the construction of the error to its return passes no AddIncludeTraceToError of the directive's tracer: an error about a directive of an included file is reported without the include chain on that path", c.pos(ret.Pos()))
					break
				}
			}
			if !bad {
				if len(rets) == 0 {
					r.Bad("C07-DIRECTIVE-TRACE", key, "the error is never returned by name", c.pos(nc.Pos()))
				} else {
					r.Ok("C07-DIRECTIVE-TRACE", key, fmt.Sprintf("%d return(s), each after the trace is attached", len(rets)), c.pos(nc.Pos()))
				}
			}
		}
	}
	if n == 0 {
		r.Undecided("C07-DIRECTIVE-TRACE", "sites", "package directive builds no error: the constructor that C07-PHASE-CONSTRUCTOR relies on is gone", "")
	}
}

// isRecvField: the expression is a field of the function's receiver (d.includeTracer).
func isRecvField(f *Fn, e ast.Expr) bool {
	sel, ok := ast.Unparen(e).(*ast.SelectorExpr)
	if !ok || f.Decl.Recv == nil || len(f.Decl.Recv.List) != 1 || len(f.Decl.Recv.List[0].Names) != 1 {
		return false
	}
	id, ok := ast.Unparen(sel.X).(*ast.Ident)
	return ok && f.Pkg.TypesInfo.Uses[id] == f.Pkg.TypesInfo.Defs[f.Decl.Recv.List[0].Names[0]]
}

// ---------- a located error is handed on, not retold ----------

// ruleNoRewrap: a *jerr.JApiError carries its place (file, index, include chain). Building a new error from its text
// - X.KeywordError(je.Error()) - moves the report to another place and repeats the chain inside the message. Errors of
// the plain `error` type have no place of their own and are rightly given the directive's.
func (c *Ctx) ruleNoRewrap() {
	r := c.R
	r.Rule("C07-NO-REWRAP", "no call that builds a *jerr.JApiError is given the text of another *jerr.JApiError (an argument <je>.Error() with je of that type): the inner error already says where the fault is, the new one would say somewhere else and carry the inner include chain inside its message (the message alone, <je>.Msg, may be handed on: the PASTE handler reports the error of a pasted body on the PASTE directive that way)", 1)
	n, ctors := 0, 0
	for _, f := range c.libFns() {
		pk := f.Pkg
		ast.Inspect(f.Decl.Body, func(nd ast.Node) bool {
			call, ok := nd.(*ast.CallExpr)
			if !ok {
				return true
			}
			t := pk.TypesInfo.TypeOf(call)
			if t == nil || !isJApiErrorPtr(t) {
				return true
			}
			ctors++
			for _, a := range call.Args {
				ac, ok := ast.Unparen(a).(*ast.CallExpr)
				if !ok || len(ac.Args) != 0 {
					continue
				}
				sel, ok := ast.Unparen(ac.Fun).(*ast.SelectorExpr)
				if !ok || sel.Sel.Name != "Error" {
					continue
				}
				if xt := pk.TypesInfo.TypeOf(sel.X); xt == nil || !isJApiErrorPtr(xt) {
					continue
				}
				n++
				key := fmt.Sprintf("%s | %s(%s)", f.Name(), exprString(call.Fun), exprString(a))
				r.Bad("C07-NO-REWRAP", key, "a located error is turned into the message of a new error at another place: the report points at this directive instead of the one at fault, and the message contains the inner include chain a second time", c.pos(call.Pos()))
			}
			return true
		})
	}
	if ctors < 20 {
		r.Undecided("C07-NO-REWRAP", "sites", fmt.Sprintf("only %d calls that build a *jerr.JApiError found", ctors), "")
		return
	}
	if n == 0 {
		r.Ok("C07-NO-REWRAP", "library", fmt.Sprintf("%d calls build a *jerr.JApiError; none is given the rendered text of another one (the PASTE handler hands on the message alone since da69db6)", ctors), "")
	}
}
