// Package prog loads /repo's current working tree (parsed, type-checked, lowered
// to SSA, call graph) for the rule engines. Nothing of the program under
// analysis is executed.
package prog

import (
	"fmt"
	"go/ast"
	"go/token"
	"go/types"
	"os"
	"sort"
	"strings"

	"golang.org/x/tools/go/callgraph"
	"golang.org/x/tools/go/callgraph/cha"
	"golang.org/x/tools/go/callgraph/vta"
	"golang.org/x/tools/go/packages"
	"golang.org/x/tools/go/ssa"
	"golang.org/x/tools/go/ssa/ssautil"
)

const ModulePath = "github.com/jsightapi/jsight-api-core"
const DepPath = "github.com/jsightapi/jsight-schema-core"

// Program is the loaded repository.
type Program struct {
	Dir     string
	Fset    *token.FileSet
	All     []*packages.Package          // every package of the module (incl. internal/ tools)
	Lib     []*packages.Package          // library packages = rule scope
	ByPath  map[string]*packages.Package // by import path (module + deps when loaded with deps)
	Deep    bool                         // loaded with dependency syntax
	SSA     *ssa.Program
	SSAPkgs map[*types.Package]*ssa.Package
	cg      *callgraph.Graph
	// Fallback resolves a function name that no longer exists (see rules/anchors.go)
	Fallback func(rel, name string) *types.Func
	decls    map[*types.Func]*ast.FuncDecl
	declPkg  map[*types.Func]*packages.Package
	files    map[*ast.File]*packages.Package
}

// RepoDir is the directory analysed; VERIF_REPO overrides it (used only to run
// the same check against scratch worktrees while validating the checker).
func RepoDir() string {
	if d := os.Getenv("VERIF_REPO"); d != "" {
		return d
	}
	return "/repo"
}

// Load loads the module. deep=true loads the syntax of all dependencies too.
func Load(deep bool) (*Program, error) {
	dir := RepoDir()
	mode := packages.NeedName | packages.NeedFiles | packages.NeedCompiledGoFiles | packages.NeedImports |
		packages.NeedTypes | packages.NeedTypesSizes | packages.NeedSyntax | packages.NeedTypesInfo | packages.NeedModule
	if deep {
		mode |= packages.NeedDeps
	}
	env := []string{}
	for _, e := range os.Environ() {
		if strings.HasPrefix(e, "GOWORK=") || strings.HasPrefix(e, "GOFLAGS=") || strings.HasPrefix(e, "GOPROXY=") ||
			strings.HasPrefix(e, "GOSUMDB=") || strings.HasPrefix(e, "GOTOOLCHAIN=") {
			continue
		}
		env = append(env, e)
	}
	env = append(env, "GOWORK=off", "GOFLAGS=-mod=mod", "GOPROXY=off", "GOSUMDB=off", "GOTOOLCHAIN=local")
	cfg := &packages.Config{Mode: mode, Dir: dir, Env: env, Tests: false}
	pkgs, err := packages.Load(cfg, "./...")
	if err != nil {
		return nil, err
	}
	if len(pkgs) == 0 {
		return nil, fmt.Errorf("no packages loaded from %s", dir)
	}
	p := &Program{Dir: dir, Deep: deep, ByPath: map[string]*packages.Package{},
		decls: map[*types.Func]*ast.FuncDecl{}, declPkg: map[*types.Func]*packages.Package{},
		files: map[*ast.File]*packages.Package{}}
	var errs []string
	packages.Visit(pkgs, nil, func(pk *packages.Package) {
		p.ByPath[pk.PkgPath] = pk
		if strings.HasPrefix(pk.PkgPath, ModulePath) {
			for _, e := range pk.Errors {
				errs = append(errs, e.Error())
			}
		}
	})
	if len(errs) > 0 {
		return nil, fmt.Errorf("type/load errors in module: %s", strings.Join(errs, "; "))
	}
	sort.Slice(pkgs, func(i, j int) bool { return pkgs[i].PkgPath < pkgs[j].PkgPath })
	for _, pk := range pkgs {
		if pk.Fset != nil {
			p.Fset = pk.Fset
		}
		p.All = append(p.All, pk)
		rel := strings.TrimPrefix(pk.PkgPath, ModulePath)
		if strings.HasPrefix(rel, "/internal") || rel == "/test" || rel == "" {
			continue // developer tools, test helpers and the empty root package are not part of the library
		}
		p.Lib = append(p.Lib, pk)
	}
	if len(p.Lib) < 8 {
		return nil, fmt.Errorf("only %d library packages found (expected >= 8)", len(p.Lib))
	}
	index := func(pk *packages.Package) {
		for _, f := range pk.Syntax {
			p.files[f] = pk
			for _, d := range f.Decls {
				if fd, ok := d.(*ast.FuncDecl); ok {
					if fn, ok := pk.TypesInfo.Defs[fd.Name].(*types.Func); ok {
						p.decls[fn] = fd
						p.declPkg[fn] = pk
					}
				}
			}
		}
	}
	for _, pk := range p.All {
		index(pk)
	}
	if deep {
		for path, pk := range p.ByPath {
			if strings.HasPrefix(path, DepPath) && pk.TypesInfo != nil {
				index(pk)
			}
		}
	}
	return p, nil
}

// BuildTagLines counts //go:build lines in library sources (must be 0: the
// analysis loads one configuration only).
func (p *Program) BuildTagLines() int {
	n := 0
	for _, pk := range p.Lib {
		for _, f := range pk.Syntax {
			for _, cg := range f.Comments {
				for _, c := range cg.List {
					if strings.HasPrefix(c.Text, "//go:build") || strings.HasPrefix(c.Text, "// +build") {
						n++
					}
				}
			}
		}
	}
	return n
}

// Pkg returns the library package with the given path relative to the module ("core", "catalog/ser/openapi").
func (p *Program) Pkg(rel string) *packages.Package {
	return p.ByPath[ModulePath+"/"+rel]
}

// Decl returns the syntax of a function declared in a loaded package.
func (p *Program) Decl(f *types.Func) *ast.FuncDecl { return p.decls[f.Origin()] }

// DeclPkg returns the package in which f is declared (nil if not loaded with syntax).
func (p *Program) DeclPkg(f *types.Func) *packages.Package { return p.declPkg[f.Origin()] }

// Pos formats a position relative to the repository root.
func (p *Program) Pos(pos token.Pos) string {
	if !pos.IsValid() {
		return "-"
	}
	ps := p.Fset.Position(pos)
	fn := strings.TrimPrefix(ps.Filename, p.Dir+"/")
	if i := strings.Index(fn, "/pkg/mod/"); i >= 0 {
		fn = fn[i+len("/pkg/mod/"):]
	}
	return fmt.Sprintf("%s:%d", fn, ps.Line)
}

// FuncName returns a stable, position-free name of a function: pkg.(*T).M or pkg.F.
func FuncName(f *types.Func) string {
	if f == nil {
		return "<nil>"
	}
	if n, ok := Canon[f.Origin()]; ok {
		return n
	}
	return rawFuncName(f)
}

// Canon maps a function that was renamed since the pinned tree to the name it had there (filled by the rules
// package from reference/anchors.json): obligation keys, exception tables and known findings are keyed by that name.
var Canon = map[*types.Func]string{}

// RawFuncName is FuncName without the rename map.
func RawFuncName(f *types.Func) string { return rawFuncName(f) }

func rawFuncName(f *types.Func) string {
	pk := ""
	if f.Pkg() != nil {
		pk = strings.TrimPrefix(f.Pkg().Path(), ModulePath+"/")
		pk = strings.TrimPrefix(pk, "github.com/jsightapi/")
	}
	sig, _ := f.Type().(*types.Signature)
	if sig != nil && sig.Recv() != nil {
		t := sig.Recv().Type()
		ptr := ""
		if pt, ok := t.(*types.Pointer); ok {
			t = pt.Elem()
			ptr = "*"
		}
		name := types.TypeString(t, func(*types.Package) string { return "" })
		if i := strings.Index(name, "["); i >= 0 {
			name = name[:i]
		}
		return fmt.Sprintf("%s.(%s%s).%s", pk, ptr, name, f.Name())
	}
	return pk + "." + f.Name()
}

// LookupFunc finds a package-level function or a method by "pkgrel.Name" / "pkgrel.Type.Method". When the name is
// gone (a rename), Fallback -- if set -- may resolve it by the function's fingerprint on the pinned tree.
func (p *Program) LookupFunc(rel, name string) *types.Func {
	if f := p.lookupFunc(rel, name); f != nil {
		return f
	}
	if p.Fallback != nil {
		return p.Fallback(rel, name)
	}
	return nil
}

func (p *Program) lookupFunc(rel, name string) *types.Func {
	pk := p.Pkg(rel)
	if pk == nil {
		return nil
	}
	parts := strings.Split(name, ".")
	if len(parts) == 1 {
		f, _ := pk.Types.Scope().Lookup(name).(*types.Func)
		return f
	}
	tn, _ := pk.Types.Scope().Lookup(parts[0]).(*types.TypeName)
	if tn == nil {
		return nil
	}
	obj, _, _ := types.LookupFieldOrMethod(types.NewPointer(tn.Type()), true, pk.Types, parts[1])
	f, _ := obj.(*types.Func)
	return f
}

// LookupType finds a named type of a library package.
func (p *Program) LookupType(rel, name string) *types.TypeName {
	pk := p.Pkg(rel)
	if pk == nil {
		return nil
	}
	tn, _ := pk.Types.Scope().Lookup(name).(*types.TypeName)
	return tn
}

// LibFuncs returns all functions declared (with bodies) in library packages, sorted.
func (p *Program) LibFuncs() []*types.Func {
	var out []*types.Func
	lib := map[*packages.Package]bool{}
	for _, pk := range p.Lib {
		lib[pk] = true
	}
	for f, pk := range p.declPkg {
		if lib[pk] && p.decls[f].Body != nil && !p.IsTestFile(p.decls[f].Pos()) {
			out = append(out, f)
		}
	}
	sort.Slice(out, func(i, j int) bool { return FuncName(out[i]) < FuncName(out[j]) })
	return out
}

func (p *Program) IsTestFile(pos token.Pos) bool {
	return strings.HasSuffix(p.Fset.Position(pos).Filename, "_test.go")
}

// IsLibPkg reports whether the types.Package is one of the library packages.
func (p *Program) IsLibPkg(tp *types.Package) bool {
	if tp == nil {
		return false
	}
	for _, pk := range p.Lib {
		if pk.Types == tp {
			return true
		}
	}
	return false
}

// BuildSSA builds SSA for every package that was loaded with syntax.
func (p *Program) BuildSSA() {
	if p.SSA != nil {
		return
	}
	var roots []*packages.Package
	roots = append(roots, p.All...)
	mode := ssa.InstantiateGenerics
	var prog *ssa.Program
	var spkgs []*ssa.Package
	if p.Deep {
		prog, spkgs = ssautil.AllPackages(roots, mode)
	} else {
		prog, spkgs = ssautil.Packages(roots, mode)
	}
	_ = spkgs
	prog.Build()
	p.SSA = prog
	p.SSAPkgs = map[*types.Package]*ssa.Package{}
	for _, sp := range prog.AllPackages() {
		p.SSAPkgs[sp.Pkg] = sp
	}
}

// SSAFunc returns the SSA function of a declared function or method.
func (p *Program) SSAFunc(f *types.Func) *ssa.Function {
	p.BuildSSA()
	return p.SSA.FuncValue(f)
}

// CallGraph returns the VTA call graph over all functions (built once).
func (p *Program) CallGraph() *callgraph.Graph {
	if p.cg != nil {
		return p.cg
	}
	p.BuildSSA()
	all := ssautil.AllFunctions(p.SSA)
	p.cg = vta.CallGraph(all, cha.CallGraph(p.SSA))
	return p.cg
}

// Reachable returns the SSA functions reachable in the call graph from the roots.
func (p *Program) Reachable(roots ...*ssa.Function) map[*ssa.Function]bool {
	cg := p.CallGraph()
	seen := map[*ssa.Function]bool{}
	var work []*ssa.Function
	for _, r := range roots {
		if r != nil && !seen[r] {
			seen[r] = true
			work = append(work, r)
		}
	}
	for len(work) > 0 {
		f := work[len(work)-1]
		work = work[:len(work)-1]
		n := cg.Nodes[f]
		if n == nil {
			continue
		}
		for _, e := range n.Out {
			c := e.Callee.Func
			if c != nil && !seen[c] {
				seen[c] = true
				work = append(work, c)
			}
		}
		// closures defined inside f are considered reachable with f
		for _, an := range f.AnonFuncs {
			if !seen[an] {
				seen[an] = true
				work = append(work, an)
			}
		}
	}
	return seen
}

// InLib reports whether an SSA function belongs to a library package (incl. closures).
func (p *Program) InLib(f *ssa.Function) bool {
	for f.Parent() != nil {
		f = f.Parent()
	}
	if f.Pkg == nil {
		if o := f.Origin(); o != nil && o.Pkg != nil {
			return p.IsLibPkg(o.Pkg.Pkg)
		}
		return false
	}
	return p.IsLibPkg(f.Pkg.Pkg)
}

// SSAName is a stable name for an SSA function (closures: parent$n).
func SSAName(f *ssa.Function) string {
	if f == nil {
		return "<nil>"
	}
	if f.Parent() != nil {
		return SSAName(f.Parent()) + "$" + strings.TrimPrefix(f.Name(), f.Parent().Name()+"$")
	}
	if obj, ok := f.Object().(*types.Func); ok && obj != nil {
		return FuncName(obj)
	}
	s := f.String()
	s = strings.ReplaceAll(s, ModulePath+"/", "")
	s = strings.ReplaceAll(s, "github.com/jsightapi/", "")
	return s
}
