// Package obl is the obligation model: rules enumerate obligations keyed by
// rule + construct (never by line), each discharged, violated, undecided or a
// mere observation; known findings are matched by key; evidence is written from
// what was actually analysed.
package obl

import (
	"encoding/json"
	"fmt"
	"os"
	"path/filepath"
	"sort"
	"strings"
	"time"
)

type Status string

const (
	Discharged  Status = "discharged"
	Violated    Status = "violated"
	Undecided   Status = "undecided"
	Observation Status = "observation"
)

// Obligation is one checked construct.
type Obligation struct {
	Rule      string `json:"rule"`
	Key       string `json:"key"` // rule | function | construct descriptor   (no line numbers)
	Status    Status `json:"status"`
	Discharge string `json:"discharge,omitempty"` // which discharge rule applied / why violated
	Text      string `json:"text,omitempty"`
	Pos       string `json:"pos,omitempty"` // file:line, human help only
	Trivial   bool   `json:"-"`
}

// Report collects everything one property check produced.
type Report struct {
	Property    string
	Tier        string
	Level       string
	Explanation string
	RuleDoc     map[string]string // rule id -> rule text
	Obls        []Obligation
	Stats       map[string]any
	Assumptions []string
	Trusted     []string
	Exceptions  []string // named exceptions used (symbol: reason)
	Floors      map[string]int
	// Only, when set, restricts what is recorded to the rules it accepts (used to reuse one rule of a larger rule set).
	Only  func(rule string) bool
	start time.Time
}

func NewReport(prop, tier string) *Report {
	return &Report{Property: prop, Tier: tier, Level: "other", RuleDoc: map[string]string{}, Stats: map[string]any{},
		Floors: map[string]int{}, start: time.Now()}
}

// Rule registers a rule and the minimal number of obligations it must produce
// (a rule that matches nothing would pass vacuously: that is reported as UNDECIDED).
func (r *Report) Rule(id, doc string, floor int) {
	if r.Only != nil && !r.Only(id) {
		return
	}
	r.RuleDoc[id] = doc
	r.Floors[id] = floor
}

func (r *Report) Add(o Obligation) {
	if r.Only != nil && !r.Only(o.Rule) {
		return
	}
	if !strings.HasPrefix(o.Key, o.Rule+" | ") {
		o.Key = o.Rule + " | " + o.Key
	}
	r.Obls = append(r.Obls, o)
}

func (r *Report) Ok(rule, key, discharge, pos string) {
	r.Add(Obligation{Rule: rule, Key: key, Status: Discharged, Discharge: discharge, Pos: pos})
}
func (r *Report) OkTrivial(rule, key, discharge, pos string) {
	r.Add(Obligation{Rule: rule, Key: key, Status: Discharged, Discharge: discharge, Pos: pos, Trivial: true})
}
func (r *Report) Bad(rule, key, text, pos string) {
	r.Add(Obligation{Rule: rule, Key: key, Status: Violated, Text: text, Pos: pos})
}
func (r *Report) Undecided(rule, key, text, pos string) {
	r.Add(Obligation{Rule: rule, Key: key, Status: Undecided, Text: text, Pos: pos})
}
func (r *Report) Observe(rule, key, text, pos string) {
	r.Add(Obligation{Rule: rule, Key: key, Status: Observation, Text: text, Pos: pos})
}
func (r *Report) Except(symbol, reason string) {
	r.Exceptions = append(r.Exceptions, symbol+": "+reason)
}

// Finding is an entry of known_findings.json.
type Finding struct {
	Kind     string `json:"kind"` // "known" or "fixed"
	Property string `json:"property"`
	Key      string `json:"key,omitempty"` // obligation key (known findings)
	What     string `json:"what"`
	Witness  string `json:"witness,omitempty"`
	Commit   string `json:"commit,omitempty"`
	Why      string `json:"why_not_repaired,omitempty"`
}

type FindingsFile struct {
	Comment  string    `json:"_comment"`
	Findings []Finding `json:"findings"`
}

func LoadFindings(path string) ([]Finding, error) {
	b, err := os.ReadFile(path)
	if err != nil {
		return nil, err
	}
	var ff FindingsFile
	if err := json.Unmarshal(b, &ff); err != nil {
		return nil, err
	}
	return ff.Findings, nil
}

// Finish applies floors and known findings, writes the evidence and violation
// replay files, prints the protocol lines and returns the process exit code.
func (r *Report) Finish(verifDir string, known []Finding, seed int64) int {
	// floors
	count := map[string]int{}
	for _, o := range r.Obls {
		count[o.Rule]++
	}
	var rules []string
	for id := range r.RuleDoc {
		rules = append(rules, id)
	}
	sort.Strings(rules)
	for _, id := range rules {
		if count[id] < r.Floors[id] {
			r.Undecided(id, "floor", fmt.Sprintf("rule matched %d constructs, at least %d were confirmed by hand on the pinned tree: the extractor no longer recognises the code", count[id], r.Floors[id]), "")
		}
	}
	sort.SliceStable(r.Obls, func(i, j int) bool { return r.Obls[i].Key < r.Obls[j].Key })

	knownByKey := map[string]Finding{}
	for _, f := range known {
		if f.Kind == "known" && f.Property == r.Property {
			knownByKey[f.Key] = f
		}
	}
	evDir := filepath.Join(verifDir, "evidence")
	_ = os.MkdirAll(evDir, 0o755)
	vdir := filepath.Join(evDir, r.Property+".violations")
	_ = os.RemoveAll(vdir)

	if want := os.Getenv("VERIF_LIST"); want != "" { // debugging aid: list the obligations of one rule (or "all")
		for _, o := range r.Obls {
			if want == "all" || o.Rule == want {
				fmt.Printf("  [%s] %s :: %s%s (%s)\n", o.Status, o.Key, o.Discharge, o.Text, o.Pos)
			}
		}
	}
	nViol, nKnown, nDis, nObs := 0, 0, 0, 0
	distinct := map[string]bool{}
	var samples []any
	var violations []Obligation
	seenKnown := map[string]bool{}
	perRule := map[string]map[string]int{}
	for _, o := range r.Obls {
		if perRule[o.Rule] == nil {
			perRule[o.Rule] = map[string]int{}
		}
		perRule[o.Rule][string(o.Status)]++
		switch o.Status {
		case Discharged:
			nDis++
			if !o.Trivial {
				distinct[o.Key] = true
			}
		case Observation:
			nObs++
		case Violated, Undecided:
			if f, ok := knownByKey[o.Key]; ok && o.Status == Violated {
				nKnown++
				if !seenKnown[o.Key] {
					seenKnown[o.Key] = true
					fmt.Printf("KNOWN-FINDING: property=%s %s [%s]\n", r.Property, f.What, o.Key)
				}
				continue
			}
			nViol++
			violations = append(violations, o)
		}
	}
	// samples: first obligation of each rule + every violation
	seenRule := map[string]int{}
	for _, o := range r.Obls {
		if seenRule[o.Rule] < 2 && o.Status != Observation {
			seenRule[o.Rule]++
			samples = append(samples, o)
		}
	}
	if len(violations) > 0 {
		_ = os.MkdirAll(vdir, 0o755)
	}
	for i, o := range violations {
		path := filepath.Join(vdir, fmt.Sprintf("%d.json", i+1))
		b, _ := json.MarshalIndent(map[string]any{"property": r.Property, "obligation": o, "rule_text": r.RuleDoc[o.Rule]}, "", " ")
		_ = os.WriteFile(path, b, 0o644)
		kind := "rule=" + o.Rule
		if o.Status == Undecided {
			kind = "rule=UNDECIDED(" + o.Rule + ")"
		}
		fmt.Printf("VIOLATION property=%s replay=%s %s at %s: %s :: %s\n", r.Property, path, kind, o.Pos, o.Key, o.Text)
	}

	total := 0
	for _, o := range r.Obls {
		if o.Status != Observation {
			total++
		}
	}
	ruleDocs := []string{}
	for _, id := range rules {
		ruleDocs = append(ruleDocs, fmt.Sprintf("%s: %s", id, r.RuleDoc[id]))
	}
	cov := map[string]any{
		"explanation":         r.Explanation,
		"rule":                "each rule enumerates constructs of /repo's current source (listed under rules); one obligation per rule+construct key; non-trivial = needed a discharge argument other than 'nothing to check'; distinct = distinct keys",
		"rules":               ruleDocs,
		"obligations":         total,
		"discharged":          nDis,
		"known_findings":      nKnown,
		"observations":        nObs,
		"evaluations":         total,
		"distinct_nontrivial": len(distinct),
		"per_rule":            perRule,
		"samples":             samples,
		"exceptions":          r.Exceptions,
		"trusted_base":        r.Trusted,
		"checker_cmd":         fmt.Sprintf("./check.sh %s %s", r.Property, r.Tier),
	}
	for k, v := range r.Stats {
		cov[k] = v
	}
	ev := map[string]any{
		"property_id": r.Property,
		"tier":        r.Tier,
		"seed":        seed,
		"level":       r.Level,
		"coverage":    cov,
		"assumptions": r.Assumptions,
		"wall_s":      time.Since(r.start).Seconds(),
		"violations":  nViol,
	}
	b, _ := json.MarshalIndent(ev, "", " ")
	if err := os.WriteFile(filepath.Join(evDir, r.Property+".json"), b, 0o644); err != nil {
		fmt.Printf("VIOLATION property=%s replay=- rule=UNDECIDED cannot write evidence: %v\n", r.Property, err)
		return 1
	}
	fmt.Printf("%s %s: %d obligations, %d discharged, %d known findings, %d observations, %d violations (%.1fs)\n",
		r.Property, r.Tier, total, nDis, nKnown, nObs, nViol, time.Since(r.start).Seconds())
	if nViol > 0 {
		return 1
	}
	return 0
}
