package scanfsm

import (
	"fmt"
	"os"
	"sort"
	"strings"
)

// Config is an abstract configuration of the pushdown system.
type Config struct {
	St     string // value of s.step
	Stack  string // comma-joined, top last, at most K entries (bottom dropped on overflow)
	Trunc  bool   // the bottom of the stack was dropped at least once
	Open   string // kind of the lexeme whose Begin was seen and End not yet ("" = none)
	D      int8   // cursor(step start) - position of the open Begin, clipped to [−3,4]
	E      int8   // cursor(step start) - position of the last End/single event, clipped to [.,4]; 4 = far/none
	Replay string // bytes that are fed next (after a rewind the just-read bytes are read again)
	Prev   byte   // the byte before the cursor, as far as guards care: a guard constant, prevOther or prevUnknown
	Phase  uint8  // (only with grammar tracking) what the current directive has shown so far, see phase* constants
}

// Phases of the per-directive lexeme grammar  Keyword Parameter* Annotation? ContextOpen? Body?
const (
	phaseNone uint8 = iota // before the first keyword / after a ContextClose
	phaseKeyword
	phaseParams
	phaseAnnotation
	phaseOpen
	phaseBody
)

const (
	prevUnknown byte = 0xFE
	prevOther   byte = 0xFD
)

type Finding struct {
	Kind  string // underflow | bracket | extent | order | inside | progress | undecided
	Key   string // position-free description
	Text  string
	State string
	Trace string
}

type Analysis struct {
	Configs     int
	Transitions int
	K           int
	Findings    []Finding
	ByKind      map[string]int
	Edges       int
	ByteClasses int
	ExtentMin   map[string]int             // "state/EndEvent" -> minimal extent seen (−1 = empty lexeme)
	OpenByState map[string]map[string]bool // state -> kinds of lexemes that can be open there ("" = none)
	StatesSeen  map[string]bool
	ConfigList  []Config
	m           *Machine
	ex          *explorer
	// event grammar observations
	EventSeqViolations []string
}

var debug = os.Getenv("VERIF_DEBUG") != ""

const clipFar = 3 // events lie at cursor+{0,-1,-2}: a distance of 3 or more can never be violated

type explorer struct {
	m        *Machine
	k        int
	nulOrd   bool // treat byte 0 as an ordinary byte too (no NUL guard)
	seen     map[Config]int
	order    []Config
	parent   []int
	parentBy []int // byte
	finds    map[string]Finding
	edges    map[[2]int]int // (from,to) -> min weight
	pred     map[string]map[byte]bool
	ntrans   int
	rep      [256]byte
	reps     []byte
	guardK   map[byte]bool
	extMin   map[string]int
	grammar  bool
}

// ByteClasses partitions 0..255: two bytes are equivalent iff every state has the
// same outcomes on both. Exploring one representative per class is exact.
func (m *Machine) ByteClasses() (rep [256]byte, reps []byte) {
	sig := map[string]byte{}
	for b := 0; b < 256; b++ {
		var sb strings.Builder
		for _, st := range m.Steps {
			for _, o := range m.Trans[st][b] {
				sb.WriteString(o.String())
				sb.WriteByte('|')
			}
			sb.WriteByte('\n')
		}
		k := sb.String()
		if r, ok := sig[k]; ok {
			rep[b] = r
		} else {
			sig[k] = byte(b)
			rep[b] = byte(b)
			reps = append(reps, byte(b))
		}
	}
	return
}

func (m *Machine) predBytes() map[string]map[byte]bool {
	pred := map[string]map[byte]bool{}
	for st, row := range m.Trans {
		_ = st
		for b := 0; b < 256; b++ {
			for _, o := range row[b] {
				if o.Term != TOk || o.Weight() != 1 {
					continue
				}
				fs := o.FinalStep()
				if fs == "" || fs == "<pop>" {
					continue
				}
				if pred[fs] == nil {
					pred[fs] = map[byte]bool{}
				}
				pred[fs][byte(b)] = true
			}
		}
	}
	return pred
}

func clip(v int) int8 {
	if v > clipFar {
		return clipFar
	}
	if v < -3 {
		return -3
	}
	return int8(v)
}

// clipD: an open lexeme whose begin lies at least one byte behind the cursor cannot get a negative extent any more
func clipD(v int) int8 {
	if v > 1 {
		return 1
	}
	if v < -3 {
		return -3
	}
	return int8(v)
}

func stackPush(st string, v string, k int) (string, bool) {
	if st == "" {
		return v, false
	}
	st = st + "," + v
	if strings.Count(st, ",") >= k {
		return st[strings.IndexByte(st, ',')+1:], true
	}
	return st, false
}

func stackPop(st string) (rest, top string, ok bool) {
	if st == "" {
		return "", "", false
	}
	i := strings.LastIndexByte(st, ',')
	if i < 0 {
		return "", st, true
	}
	return st[:i], st[i+1:], true
}

func (ex *explorer) add(c Config, from int, by int) int {
	if id, ok := ex.seen[c]; ok {
		return id
	}
	id := len(ex.order)
	ex.seen[c] = id
	ex.order = append(ex.order, c)
	ex.parent = append(ex.parent, from)
	ex.parentBy = append(ex.parentBy, by)
	return id
}

func (ex *explorer) trace(id int) string {
	var bs []string
	for id > 0 && len(bs) < 60 {
		bs = append(bs, fmt.Sprintf("%q", byte(ex.parentBy[id])))
		id = ex.parent[id]
	}
	for i, j := 0, len(bs)-1; i < j; i, j = i+1, j-1 {
		bs[i], bs[j] = bs[j], bs[i]
	}
	return strings.Join(bs, " ")
}

func (ex *explorer) report(kind, key, text string, c Config, id int) {
	k := kind + "|" + key
	if _, ok := ex.finds[k]; !ok {
		ex.finds[k] = Finding{Kind: kind, Key: key, Text: text, State: c.St, Trace: ex.trace(id)}
	}
}

type succ struct {
	c   Config
	w   int
	evs []string // events emitted on the way (name@offset relative to the cursor of the byte that was fed)
}

// apply runs state fn on byte b from configuration c (fn may differ from c.St when
// continuing in a popped state on the same byte).
func (ex *explorer) apply(c Config, id int, fn string, b int, depth int, wAcc int) []succ {
	var out []succ
	row, ok := ex.m.Trans[fn]
	if !ok {
		ex.report("undecided", "unknown state "+fn, "s.step holds a function that is not an extracted step function", c, id)
		return nil
	}
	for _, o := range row[b] {
		if o.Term == TErr {
			// errors must be located inside the file: cursor+off with off in {0} (index == len at EOF is tolerated, see DESIGN §6)
			if o.ErrCur && o.ErrOff < -2 {
				ex.report("inside", fmt.Sprintf("%s error index cursor%+d", fn, o.ErrOff), "scanner error located before the bytes it has read", c, id)
			}
			continue
		}
		if !guardsHold(o.Guards, c.Prev) {
			continue
		}
		stepVar := c.St
		stack := c.Stack
		trunc := c.Trunc
		open, d, e := c.Open, int(c.D), int(c.E)
		phase := c.Phase
		bad := false
		var evs []string
		for _, ef := range o.Effs {
			if ef.K == EFound {
				evs = append(evs, fmt.Sprintf("%s@%d", ef.Ev, ef.Off))
			}
			switch ef.K {
			case ESetStep:
				stepVar = ef.Fn
			case EPush:
				v := ef.Fn
				if v == "" {
					v = stepVar
				}
				var tr bool
				stack, tr = stackPush(stack, v, ex.k)
				trunc = trunc || tr
			case EPop:
				rest, top, okPop := stackPop(stack)
				if !okPop {
					if trunc {
						ex.report("undecided", fmt.Sprintf("pop in %s on truncated stack", fn), "the k-bounded abstraction lost the stack bottom; cannot decide underflow here", c, id)
					} else {
						ex.report("underflow", fmt.Sprintf("%s pops an empty step stack (entered as %s)", fn, c.St),
							fmt.Sprintf("stepStack.Pop() with an empty stack in %s on byte %q", fn, byte(b)), c, id)
					}
					bad = true
				} else {
					stepVar = top
					stack = rest
				}
			case EFound:
				kind := ex.m.EventKinds[ef.Ev]
				switch {
				case strings.HasPrefix(kind, "begin:"):
					if open != "" {
						ex.report("bracket", fmt.Sprintf("%s in %s while %s is open", ef.Ev, fn, open), "a lexeme begins while another one is still open", c, id)
					}
					if ef.Off+e < 1 {
						ex.report("order", fmt.Sprintf("%s in %s at or before the previous lexeme end (gap %d)", ef.Ev, fn, ef.Off+e), "lexemes overlap or are out of text order", c, id)
					}
					open = strings.TrimPrefix(kind, "begin:")
					d = -ef.Off
				case strings.HasPrefix(kind, "end:"):
					k := strings.TrimPrefix(kind, "end:")
					if open != k {
						ex.report("bracket", fmt.Sprintf("%s in %s but open=%q", ef.Ev, fn, open), "an End event does not meet the matching Begin on the event stack", c, id)
					} else if ext := d + ef.Off; true {
						key := fn + "/" + ef.Ev
						if old, ok := ex.extMin[key]; !ok || ext < old {
							ex.extMin[key] = ext
						}
					}
					if open == k && d+ef.Off < -1 {
						ex.report("extent", fmt.Sprintf("%s lexeme with extent %d ended in %s (entered as %s)", k, d+ef.Off, fn, c.St),
							fmt.Sprintf("end of the lexeme lies %d bytes before its begin", -(d+ef.Off)), c, id)
					}
					open = ""
					d = 0
					e = -ef.Off
					if ex.grammar {
						phase = ex.grammarStep(phase, k, fn, c, id)
					}
				case kind == "single":
					if ex.grammar {
						phase = ex.grammarStep(phase, ef.Ev, fn, c, id)
					}
					if open != "" {
						ex.report("bracket", fmt.Sprintf("%s in %s while %s is open", ef.Ev, fn, open), "a single event occurs inside an open lexeme", c, id)
					}
					if ef.Off+e < 1 {
						ex.report("order", fmt.Sprintf("%s in %s at or before the previous lexeme end (gap %d)", ef.Ev, fn, ef.Off+e), "lexemes overlap or are out of text order", c, id)
					}
					e = -ef.Off
				default:
					ex.report("undecided", "unclassified event "+ef.Ev, "event constant is neither beginning, ending nor single", c, id)
				}
				if ef.Off > 0 || ef.Off < -2 {
					ex.report("inside", fmt.Sprintf("%s in %s at cursor%+d", ef.Ev, fn, ef.Off), "event position outside cursor+{0,-1,-2}", c, id)
				}
			}
			if bad {
				break
			}
		}
		if bad {
			continue
		}
		w := o.Weight()
		nc := Config{St: stepVar, Stack: stack, Trunc: trunc, Open: open, Phase: phase}
		if o.Term == TPopped {
			if depth > 8 {
				ex.report("undecided", "delegation chain through popped states longer than 8 in "+fn, "possible unbounded recursion through popped states on one byte", c, id)
				continue
			}
			// continue in the popped state on the same byte: positions stay relative to the same cursor
			nc.D, nc.E = clipD(d), clip(e)
			nc.Replay = c.Replay
			nc.Prev = c.Prev
			for _, sub := range ex.apply(nc, id, stepVar, b, depth+1, wAcc) {
				sub.evs = append(append([]string(nil), evs...), sub.evs...)
				out = append(out, sub)
			}
			continue
		}
		if b == 0 && w >= 1 && !ex.nulOrd {
			continue // EOF consumed and not rewound: Next() leaves its loop
		}
		if open != "" {
			nc.D = clipD(d + w)
		}
		nc.E = clip(e + w)
		nc.Prev = prevUnknown
		if w == 1 && !hasJump(o) {
			if ex.guardK[byte(b)] {
				nc.Prev = byte(b)
			} else {
				nc.Prev = prevOther
			}
		}
		// replay: bytes re-read after a rewind
		if w <= 0 {
			// new cursor = cursor + w; bytes at [cursor+w, cursor] are known: ..., prev byte, current byte
			var rp []byte
			if w == 0 {
				rp = []byte{byte(b)}
			} else if w == -1 {
				rp = []byte{0xFF, byte(b)} // 0xFF marks "one of the predecessor bytes of the state", resolved below
			} else {
				rp = nil // deeper rewinds: unconstrained (sound)
			}
			if w == -1 {
				preds := ex.pred[fn]
				if len(preds) > 0 && len(preds) <= 4 {
					for pb := range preds {
						n2 := nc
						n2.Replay = string([]byte{ex.rep[pb], byte(b)})
						out = append(out, succ{n2, w + wAcc, evs})
					}
					continue
				}
				rp = nil
			}
			nc.Replay = string(rp)
		} else if len(c.Replay) > 0 && depth == 0 {
			nc.Replay = c.Replay[1:]
		} else if len(c.Replay) > 0 {
			nc.Replay = c.Replay[1:]
		}
		out = append(out, succ{nc, w + wAcc, evs})
	}
	return out
}

func hasJump(o Outcome) bool {
	for _, e := range o.Effs {
		if e.K == EJump {
			return true
		}
	}
	return false
}

func guardsHold(gs []Guard, prev byte) bool {
	if prev == prevUnknown {
		return true
	}
	for _, g := range gs {
		if g.Eq != (prev == g.K) {
			return false
		}
	}
	return true
}

// grammarStep advances the per-directive grammar on a completed lexeme of the given kind (or a single event).
func (ex *explorer) grammarStep(phase uint8, kind, fn string, c Config, id int) uint8 {
	bad := func(what string) {
		ex.report("grammar", fmt.Sprintf("%s in %s after %s", what, fn, phaseName(phase)), "the lexemes of one directive do not follow Keyword Parameter* Annotation? ContextOpen? Body?", c, id)
	}
	switch kind {
	case "Keyword":
		return phaseKeyword
	case "Parameter":
		if phase != phaseKeyword && phase != phaseParams {
			bad("Parameter")
		}
		return phaseParams
	case "Annotation":
		if phase != phaseKeyword && phase != phaseParams {
			bad("Annotation")
		}
		return phaseAnnotation
	case "ContextOpen":
		if phase == phaseNone || phase == phaseOpen || phase == phaseBody {
			bad("ContextOpen")
		}
		return phaseOpen
	case "ContextClose":
		return phaseNone
	case "Schema", "Text", "Enum":
		if phase == phaseNone || phase == phaseBody {
			bad("Body (" + kind + ")")
		}
		return phaseBody
	}
	return phase
}

func phaseName(p uint8) string {
	return [...]string{"nothing (no directive open)", "the keyword", "a parameter", "the annotation", "the opening parenthesis", "the body"}[p]
}

// AnalyseGrammar is Analyse with the per-directive lexeme grammar tracked in the configurations (more configurations).
func (m *Machine) AnalyseGrammar(k int) *Analysis {
	return m.analyse(k, false, true)
}

// Analyse explores all reachable abstract configurations.
func (m *Machine) Analyse(k int, pessimisticNul bool) *Analysis {
	return m.analyse(k, pessimisticNul, false)
}

func (m *Machine) analyse(k int, pessimisticNul bool, grammar bool) *Analysis {
	ex := &explorer{grammar: grammar, m: m, k: k, nulOrd: pessimisticNul || !m.NulGuard, seen: map[Config]int{}, finds: map[string]Finding{},
		edges: map[[2]int]int{}, pred: m.predBytes()}
	ex.rep, ex.reps = m.ByteClasses()
	ex.guardK, ex.extMin = map[byte]bool{}, map[string]int{}
	for _, st := range m.Steps {
		for b := 0; b < 256; b++ {
			for _, o := range m.Trans[st][b] {
				for _, g := range o.Guards {
					ex.guardK[g.K] = true
				}
			}
		}
	}
	ex.add(Config{St: m.InitStep, E: clipFar, Prev: prevUnknown}, 0, 0)
	for i := 0; i < len(ex.order); i++ {
		c := ex.order[i]
		bytesToTry := ex.reps
		if len(c.Replay) > 0 {
			bytesToTry = []byte{c.Replay[0]}
		}
		for _, bb := range bytesToTry {
			b := int(bb)
			for _, s := range ex.apply(c, i, c.St, b, 0, 0) {
				ex.ntrans++
				j := ex.add(s.c, i, b)
				key := [2]int{i, j}
				if w, ok := ex.edges[key]; !ok || s.w < w {
					ex.edges[key] = s.w
				}
			}
		}
		if debug && i%20000 == 0 {
			fmt.Fprintf(os.Stderr, "explore: %d done, %d known, %d transitions\n", i, len(ex.order), ex.ntrans)
		}
		if len(ex.order) > 3_000_000 {
			ex.report("undecided", "state explosion", "more than 3M abstract configurations", c, i)
			break
		}
	}
	if debug {
		proj := map[Config]bool{}
		pe := map[int8]int{}
		pr := map[int]int{}
		for _, c := range ex.order {
			pe[c.E]++
			pr[len(c.Replay)]++
			c.E, c.Trunc, c.Replay, c.Prev = 0, false, "", 0
			proj[c] = true
		}
		fmt.Fprintf(os.Stderr, "projection (st,stack,open,d): %d; E histogram %v; replay len histogram %v\n", len(proj), pe, pr)
	}
	ex.progress()
	a := &Analysis{Configs: len(ex.order), Transitions: ex.ntrans, K: k, ByKind: map[string]int{}, Edges: len(ex.edges), ByteClasses: len(ex.reps)}
	a.ExtentMin = ex.extMin
	a.OpenByState, a.StatesSeen = map[string]map[string]bool{}, map[string]bool{}
	for _, c := range ex.order {
		if a.OpenByState[c.St] == nil {
			a.OpenByState[c.St] = map[string]bool{}
		}
		a.OpenByState[c.St][c.Open] = true
		a.StatesSeen[c.St] = true
	}
	a.ConfigList, a.m, a.ex = ex.order, m, ex
	var keys []string
	for k := range ex.finds {
		keys = append(keys, k)
	}
	sort.Strings(keys)
	for _, k := range keys {
		f := ex.finds[k]
		a.Findings = append(a.Findings, f)
		a.ByKind[f.Kind]++
	}
	return a
}

// progress: every cycle of the configuration graph must have positive cursor weight.
//
// Potentials h (shortest distance from a virtual source connected to every node
// with weight 0) exist iff there is no negative cycle; with them the reduced
// weight w + h[u] - h[v] of every edge is >= 0 and cycle weights are unchanged,
// so a zero-weight cycle is exactly a cycle of tight edges.
func (ex *explorer) progress() {
	n := len(ex.order)
	type edge struct{ to, w int }
	adj := make([][]edge, n)
	for k, w := range ex.edges {
		adj[k[0]] = append(adj[k[0]], edge{k[1], w})
	}
	h := make([]int, n)
	inq := make([]bool, n)
	var work []int
	for k, w := range ex.edges {
		if w < 0 && !inq[k[0]] {
			inq[k[0]] = true
			work = append(work, k[0])
		}
	}
	sort.Ints(work)
	const floor = -64
	for len(work) > 0 {
		u := work[0]
		work = work[1:]
		inq[u] = false
		for _, e := range adj[u] {
			if nd := h[u] + e.w; nd < h[e.to] {
				h[e.to] = nd
				if nd < floor {
					c := ex.order[e.to]
					ex.report("progress", "cycle of negative cursor weight through "+c.St, "the scanner can move its cursor backwards for ever", c, e.to)
					return
				}
				if !inq[e.to] {
					inq[e.to] = true
					work = append(work, e.to)
				}
			}
		}
	}
	// tight subgraph, iterative DFS for a cycle
	color := make([]uint8, n)
	type fr struct{ u, i int }
	for s := 0; s < n; s++ {
		if color[s] != 0 {
			continue
		}
		st := []fr{{s, 0}}
		color[s] = 1
		for len(st) > 0 {
			f := &st[len(st)-1]
			if f.i < len(adj[f.u]) {
				e := adj[f.u][f.i]
				f.i++
				if e.w+h[f.u]-h[e.to] != 0 {
					continue
				}
				if color[e.to] == 1 {
					c := ex.order[e.to]
					ex.report("progress", fmt.Sprintf("cycle of zero cursor weight through state %s", c.St),
						"the scanner can return to the same configuration without consuming input (hang)", c, e.to)
					continue
				}
				if color[e.to] == 0 {
					color[e.to] = 1
					st = append(st, fr{e.to, 0})
				}
			} else {
				color[f.u] = 2
				st = st[:len(st)-1]
			}
		}
	}
}

// ---------- derived tables ----------

// Keywords returns all words that lead from the start state through letter states
// (no event, weight 1) to a KeywordEnd event.
func (m *Machine) Keywords(start string, maxDepth int) (words []string, overflow bool) {
	words, _, overflow = m.KeywordPaths(start, maxDepth)
	return
}

// KeywordStartStates returns the states that can emit a Keyword-begin event.
func (m *Machine) KeywordStartStates() []string {
	var out []string
	for _, st := range m.Steps {
		found := false
		for b := 0; b < 256 && !found; b++ {
			for _, o := range m.Trans[st][b] {
				for _, e := range o.Effs {
					if e.K == EFound && m.EventKinds[e.Ev] == "begin:Keyword" {
						found = true
					}
				}
			}
		}
		if found {
			out = append(out, st)
		}
	}
	return out
}

// KeywordPaths also returns the letter states visited between Keyword begin and end.
func (m *Machine) KeywordPaths(start string, maxDepth int) (words []string, letterStates map[string]bool, overflow bool) {
	letterStates = map[string]bool{}
	m.KeywordAnomalies = nil
	var walk func(s, pref string, depth int)
	seenOverflow := false
	walk = func(s, pref string, depth int) {
		letterStates[s] = true
		if depth > maxDepth {
			seenOverflow = true
			return
		}
		row := m.Trans[s]
		for b := 1; b < 256; b++ {
			for _, o := range row[b] {
				if o.Term != TOk {
					continue
				}
				end, other := false, false
				for _, e := range o.Effs {
					if e.K == EFound {
						if m.EventKinds[e.Ev] == "end:Keyword" {
							end = true
						} else {
							other = true
						}
					}
				}
				if other {
					continue
				}
				if end {
					words = append(words, pref+string(rune(b)))
					continue
				}
				next := o.FinalStep()
				if next != "" && next != "<pop>" && o.Weight() == 1 && len(o.Effs) == 1 && len(o.Guards) == 0 && next != s {
					walk(next, pref+string(rune(b)), depth+1)
				} else {
					m.KeywordAnomalies = append(m.KeywordAnomalies, fmt.Sprintf("state %s accepts byte %q inside a keyword (after %q) with outcome %s", s, byte(b), pref, o))
				}
			}
		}
	}
	row := m.Trans[start]
	for b := 1; b < 256; b++ {
		for _, o := range row[b] {
			if o.Term != TOk {
				continue
			}
			begins := false
			for _, e := range o.Effs {
				if e.K == EFound && m.EventKinds[e.Ev] == "begin:Keyword" {
					begins = true
				}
			}
			if begins {
				walk(o.FinalStep(), string(rune(b)), 1)
			}
		}
	}
	sort.Strings(words)
	return words, letterStates, seenOverflow
}

// AfterKeywordStates returns the states entered by transitions that emit KeywordEnd.
func (m *Machine) AfterKeywordStates() map[string]bool {
	out := map[string]bool{}
	for _, st := range m.Steps {
		row := m.Trans[st]
		for b := 0; b < 256; b++ {
			for _, o := range row[b] {
				for _, e := range o.Effs {
					if e.K == EFound && m.EventKinds[e.Ev] == "end:Keyword" {
						out[o.FinalStep()] = true
					}
				}
			}
		}
	}
	return out
}

// NonErrorBytes lists the bytes on which the state has at least one non-error outcome.
func (m *Machine) NonErrorBytes(st string) []byte {
	var out []byte
	row := m.Trans[st]
	for b := 0; b < 256; b++ {
		for _, o := range row[b] {
			if o.Term != TErr {
				out = append(out, byte(b))
				break
			}
		}
	}
	return out
}

func (m *Machine) OutcomeSig(st string, b byte) string {
	var ss []string
	for _, o := range m.Trans[st][b] {
		ss = append(ss, o.String())
	}
	sort.Strings(ss)
	return strings.Join(ss, " || ")
}

// Reachable states (by s.step value) of an analysis are recomputed cheaply here.
func (m *Machine) ReachableStates(k int) map[string]bool {
	ex := &explorer{m: m, k: k, nulOrd: !m.NulGuard, seen: map[Config]int{}, finds: map[string]Finding{}, edges: map[[2]int]int{}, pred: m.predBytes()}
	_ = ex
	out := map[string]bool{}
	return out
}

// Feed applies the bytes to configuration c and returns all configurations reached
// (errors drop out). Used by rules that ask "what happens after these bytes in
// every reachable configuration".
func (a *Analysis) Feed(c Config, bs []byte) []Config {
	cur := []Config{c}
	for _, b := range bs {
		var next []Config
		seen := map[Config]bool{}
		for _, x := range cur {
			if len(x.Replay) > 0 && x.Replay[0] != a.ex.rep[b] {
				continue
			}
			for _, s := range a.ex.apply(x, 0, x.St, int(a.ex.rep[b]), 0, 0) {
				if !seen[s.c] {
					seen[s.c] = true
					next = append(next, s.c)
				}
			}
		}
		cur = next
	}
	return cur
}

// ---------- CRLF as one line end ----------

// LineEndDivergence describes a reachable configuration in which the byte pair CR LF does not behave like LF alone.
type LineEndDivergence struct {
	State, Stack, Open string
	LF, CRLF           string
	Trace              string
}

// behaviour renders what a set of configurations can do on every byte sequence of length <= depth: the events emitted
// (with their offsets), whether an error is possible, and -- at the horizon -- nothing more. Replayed bytes are fed
// before the chosen ones, as the scanner would.
func (ex *explorer) behaviour(set []Config, depth int, shift int) string {
	if depth == 0 || len(set) == 0 {
		return ""
	}
	var parts []string
	for _, bb := range ex.reps {
		evSet := map[string]bool{}
		var next []Config
		seen := map[Config]bool{}
		for _, c := range set {
			cs := []Config{c}
			// drain replays first (they re-read known bytes and are not a choice)
			for guard := 0; guard < 4; guard++ {
				var drained []Config
				again := false
				for _, x := range cs {
					if len(x.Replay) > 0 {
						again = true
						for _, s := range ex.apply(x, 0, x.St, int(x.Replay[0]), 0, 0) {
							drained = append(drained, s.c)
						}
					} else {
						drained = append(drained, x)
					}
				}
				cs = drained
				if !again {
					break
				}
			}
			for _, x := range cs {
				row := ex.m.Trans[x.St]
				for _, o := range row[int(bb)] {
					if o.Term == TErr && guardsHold(o.Guards, x.Prev) {
						evSet["ERR"] = true
					}
				}
				for _, s := range ex.apply(x, 0, x.St, int(bb), 0, 0) {
					evSet[strings.Join(dropTextBegin(s.evs), " ")] = true
					n := s.c
					n.D, n.E, n.Trunc = 0, 0, false
					if !seen[n] {
						seen[n] = true
						next = append(next, s.c)
					}
				}
			}
		}
		var evs []string
		for e := range evSet {
			evs = append(evs, e)
		}
		sort.Strings(evs)
		tail := ex.behaviour(next, depth-1, shift)
		if depth == 1 {
			// at the horizon: which lexeme is open
			opens := map[string]bool{}
			for _, n := range next {
				opens[n.Open] = true
			}
			var os []string
			for o := range opens {
				os = append(os, "open="+o)
			}
			sort.Strings(os)
			tail = strings.Join(os, ",")
		}
		parts = append(parts, fmt.Sprintf("%q:{%s}[%s]", bb, strings.Join(evs, "|"), tail))
	}
	return strings.Join(parts, ";")
}

// dropTextBegin: where the free text of a Description begins is compared through the lexeme that is open at the
// horizon, not through the place of the TextBegin event: after "Description CR LF" the text lexeme begins at the LF,
// after "Description LF" at the byte after it; core.description trims leading line breaks (checked by C08-NORMALISERS).
func dropTextBegin(evs []string) []string {
	var o []string
	for _, e := range evs {
		if !strings.HasPrefix(e, "TextBegin@") {
			o = append(o, e)
		}
	}
	return o
}

// LineEndDivergences compares, for every explored configuration that reads fresh input, the byte LF with the pair
// CR LF: the events emitted while the line end is read (positions counted from the first byte of the line end) and
// the behaviour on the next `lookahead` bytes must be the same.
func (a *Analysis) LineEndDivergences(lookahead int) []LineEndDivergence {
	ex := a.ex
	saveFinds := ex.finds
	ex.finds = map[string]Finding{} // the probes below must not add findings
	defer func() { ex.finds = saveFinds }()
	var out []LineEndDivergence
	seenKey := map[string]bool{}
	memo := map[string]string{}
	beh := func(set []Config) string {
		var ks []string
		for _, c := range set {
			c.D, c.E, c.Trunc = 0, 0, false
			ks = append(ks, fmt.Sprintf("%v", c))
		}
		sort.Strings(ks)
		k := strings.Join(ks, "#")
		if v, ok := memo[k]; ok {
			return v
		}
		v := ex.behaviour(set, lookahead, 0)
		memo[k] = v
		return v
	}
	shiftEvs := func(evs []string, by int) string {
		var o []string
		for _, e := range dropTextBegin(evs) {
			i := strings.LastIndexByte(e, '@')
			var off int
			fmt.Sscanf(e[i+1:], "%d", &off)
			o = append(o, fmt.Sprintf("%s@%d", e[:i], off+by))
		}
		return strings.Join(o, " ")
	}
	for id, c := range ex.order {
		if len(c.Replay) > 0 {
			continue
		}
		key := fmt.Sprintf("%s|%s|%s|%d", c.St, c.Stack, c.Open, c.Phase)
		if seenKey[key] {
			continue
		}
		seenKey[key] = true
		// LF alone
		lf := map[string][]Config{}
		for _, s := range ex.apply(c, id, c.St, '\n', 0, 0) {
			k := shiftEvs(s.evs, 0)
			lf[k] = append(lf[k], s.c)
		}
		// CR then LF (events of the second step lie one byte further)
		crlf := map[string][]Config{}
		for _, s1 := range ex.apply(c, id, c.St, '\r', 0, 0) {
			mids := []Config{s1.c}
			// a rewound CR is read again before the LF
			for guard := 0; guard < 4 && len(mids) > 0 && len(mids[0].Replay) > 0; guard++ {
				var nx []Config
				for _, mc := range mids {
					if len(mc.Replay) == 0 {
						nx = append(nx, mc)
						continue
					}
					for _, s := range ex.apply(mc, id, mc.St, int(mc.Replay[0]), 0, 0) {
						nx = append(nx, s.c)
					}
				}
				mids = nx
			}
			for _, mc := range mids {
				for _, s2 := range ex.apply(mc, id, mc.St, '\n', 0, 0) {
					k := strings.TrimSpace(shiftEvs(s1.evs, 0) + " " + shiftEvs(s2.evs, 1))
					crlf[k] = append(crlf[k], s2.c)
				}
			}
		}
		render := func(m map[string][]Config) string {
			var ks []string
			for k, set := range m {
				ks = append(ks, "{"+k+"}=>"+beh(set))
			}
			sort.Strings(ks)
			return strings.Join(ks, " || ")
		}
		l, r := render(lf), render(crlf)
		if l != r {
			out = append(out, LineEndDivergence{State: c.St, Stack: c.Stack, Open: c.Open, LF: l, CRLF: r, Trace: ex.trace(id)})
		}
	}
	return out
}

// ---------- end of input with a lexeme open ----------

// EOFOpen describes a reachable configuration in which the end of the input is consumed while a lexeme is still open
// (its Begin was emitted, its End never is) without an error.
type EOFOpen struct {
	State, Stack, Open, Trace string
}

// EOFLeavesOpen feeds the end-of-input byte to every explored configuration that has a lexeme open and follows the
// re-feeds (pops, rewinds) until the byte is consumed or an error is returned.
func (a *Analysis) EOFLeavesOpen() []EOFOpen {
	ex := a.ex
	saveFinds, saveNul := ex.finds, ex.nulOrd
	ex.finds, ex.nulOrd = map[string]Finding{}, true
	defer func() { ex.finds, ex.nulOrd = saveFinds, saveNul }()
	var out []EOFOpen
	seenKey := map[string]bool{}
	for id, c := range ex.order {
		if c.Open == "" || len(c.Replay) > 0 {
			continue
		}
		key := fmt.Sprintf("%s|%s|%s", c.St, c.Stack, c.Open)
		if seenKey[key] {
			continue
		}
		seenKey[key] = true
		// closed: the End of the lexeme that was open has been emitted on the way (a lexeme that the end of the input
		// itself opens afterwards, e.g. a body handed to the opaque schema reader, is not this rule's business)
		type item struct {
			c      Config
			closed bool
		}
		front := []item{{c, false}}
		bad := false
		for round := 0; round < 6 && len(front) > 0 && !bad; round++ {
			var next []item
			for _, x := range front {
				for _, s := range ex.apply(x.c, id, x.c.St, 0, 0, 0) {
					closed := x.closed
					for _, e := range s.evs {
						if i := strings.LastIndexByte(e, '@'); i > 0 && ex.m.EventKinds[e[:i]] == "end:"+c.Open {
							closed = true
						}
					}
					if s.w >= 1 {
						if !closed {
							bad = true
							if debug {
								fmt.Fprintf(os.Stderr, "EOF-open: from %+v via %+v -> %+v w=%d evs=%v\n", c, x, s.c, s.w, s.evs)
							}
						}
						continue
					}
					n := s.c
					n.Replay = ""
					next = append(next, item{n, closed})
				}
			}
			front = next
		}
		if bad {
			out = append(out, EOFOpen{State: c.St, Stack: c.Stack, Open: c.Open, Trace: ex.trace(id)})
		}
	}
	return out
}

// ---------- the opening parenthesis is transparent ----------

// OpenDivergence describes a reachable configuration in which "(" followed by a line end does not leave the scanner
// where the line end alone leaves it.
type OpenDivergence struct {
	State, Stack    string
	Plain, Explicit string
	Trace           string
}

// ContextOpenDivergences: in every explored configuration in which the byte "(" is announced as a ContextOpen, the
// scanner must afterwards read the input exactly as it would have without the parenthesis: what follows "(" LF is
// compared, on every byte sequence of length <= lookahead, with what follows LF alone. Returns also the number of
// configurations compared.
func (a *Analysis) ContextOpenDivergences(lookahead int) (out []OpenDivergence, compared int) {
	ex := a.ex
	saveFinds := ex.finds
	ex.finds = map[string]Finding{}
	defer func() { ex.finds = saveFinds }()
	memo := map[string]string{}
	beh := func(set []Config) string {
		var ks []string
		for _, c := range set {
			c.D, c.E, c.Trunc, c.Phase = 0, 0, false, 0
			ks = append(ks, fmt.Sprintf("%v", c))
		}
		sort.Strings(ks)
		k := strings.Join(ks, "#")
		if v, ok := memo[k]; ok {
			return v
		}
		for i := range set {
			set[i].Phase = 0
		}
		v := ex.behaviour(set, lookahead, 0)
		memo[k] = v
		return v
	}
	names := func(evs []string) string {
		var o []string
		for _, e := range evs {
			if i := strings.LastIndexByte(e, '@'); i > 0 {
				e = e[:i]
			}
			o = append(o, e)
		}
		return strings.Join(o, " ")
	}
	seenKey := map[string]bool{}
	for id, c := range ex.order {
		if len(c.Replay) > 0 {
			continue
		}
		key := fmt.Sprintf("%s|%s|%s", c.St, c.Stack, c.Open)
		if seenKey[key] {
			continue
		}
		seenKey[key] = true
		var opened []Config
		for _, s := range ex.apply(c, id, c.St, int(ex.rep['(']), 0, 0) {
			for _, e := range s.evs {
				if strings.HasPrefix(e, "ContextOpen@") {
					opened = append(opened, s.c)
					break
				}
			}
		}
		if len(opened) == 0 {
			continue
		}
		compared++
		after := func(from []Config) string {
			m := map[string][]Config{}
			for _, f := range from {
				for _, s := range ex.apply(f, id, f.St, '\n', 0, 0) {
					k := names(s.evs)
					m[k] = append(m[k], s.c)
				}
			}
			var ks []string
			for k, set := range m {
				ks = append(ks, "{"+k+"}=>"+beh(set))
			}
			sort.Strings(ks)
			return strings.Join(ks, " || ")
		}
		p, e := after([]Config{c}), after(opened)
		if p != e {
			out = append(out, OpenDivergence{State: c.St, Stack: c.Stack, Plain: p, Explicit: e, Trace: ex.trace(id)})
		}
	}
	return out, compared
}

// ---------- a comment before a regular expression ----------

// PreludeCommentFailure: a configuration in which the byte '/' begins the Text lexeme of a regular expression (and an
// ordinary letter does not begin a text: it is not a Description), but '#' is refused.
type PreludeCommentFailure struct {
	State, Stack, Trace string
}

// RegexPreludeCommentFailures: in every explored configuration that waits for the delimiter of a regular expression,
// the comment sign starts a comment. Returns the failures and the number of such configurations.
func (a *Analysis) RegexPreludeCommentFailures() (out []PreludeCommentFailure, preludes int) {
	ex := a.ex
	saveFinds := ex.finds
	ex.finds = map[string]Finding{}
	defer func() { ex.finds = saveFinds }()
	begins := func(c Config, id int, b byte) (text, ok bool) {
		for _, s := range ex.apply(c, id, c.St, int(ex.rep[b]), 0, 0) {
			ok = true
			for _, e := range s.evs {
				if strings.HasPrefix(e, "TextBegin@") {
					text = true
				}
			}
		}
		return text, ok
	}
	seenKey := map[string]bool{}
	for id, c := range ex.order {
		if len(c.Replay) > 0 || c.Open != "" {
			continue
		}
		key := c.St + "|" + c.Stack
		if seenKey[key] {
			continue
		}
		seenKey[key] = true
		if t, _ := begins(c, id, '/'); !t {
			continue
		}
		if t, _ := begins(c, id, 'a'); t {
			continue
		}
		preludes++
		if _, ok := begins(c, id, '#'); !ok {
			out = append(out, PreludeCommentFailure{State: c.St, Stack: c.Stack, Trace: ex.trace(id)})
		}
	}
	return out, preludes
}

// ---------- a comment between a directive and the parenthesis of its context ----------

// CommentBeforeOpenFailure: a configuration in which '(' opens the explicit context of the directive, but a comment
// sign at the same place is refused or handed to a body reader (which then meets the parenthesis).
type CommentBeforeOpenFailure struct {
	State, Stack, What, Trace string
}

// CommentBeforeOpenFailures: in every explored configuration in which the byte '(' is reported as ContextOpen, the
// comment sign starts a comment of the API description: it is not an error and it begins no Schema / Text / Enum
// lexeme. Returns the failures and the number of such configurations.
func (a *Analysis) CommentBeforeOpenFailures() (out []CommentBeforeOpenFailure, sites int) {
	ex := a.ex
	saveFinds := ex.finds
	ex.finds = map[string]Finding{}
	defer func() { ex.finds = saveFinds }()
	seenKey := map[string]bool{}
	for id, c := range ex.order {
		if len(c.Replay) > 0 || c.Open != "" {
			continue
		}
		key := c.St + "|" + c.Stack
		if seenKey[key] {
			continue
		}
		seenKey[key] = true
		opens := false
		for _, s := range ex.apply(c, id, c.St, int(ex.rep['(']), 0, 0) {
			for _, e := range s.evs {
				if strings.HasPrefix(e, "ContextOpen@") {
					opens = true
				}
			}
		}
		if !opens {
			continue
		}
		sites++
		succ := ex.apply(c, id, c.St, int(ex.rep['#']), 0, 0)
		if len(succ) == 0 {
			out = append(out, CommentBeforeOpenFailure{State: c.St, Stack: c.Stack, What: "'#' is an error", Trace: ex.trace(id)})
			continue
		}
		for _, s := range succ {
			body := ""
			for _, e := range s.evs {
				if strings.HasPrefix(e, "Schema") || strings.HasPrefix(e, "Text") || strings.HasPrefix(e, "Enum") {
					body = e
				}
			}
			if body != "" || strings.Contains(strings.ToLower(s.c.St), "schema") {
				out = append(out, CommentBeforeOpenFailure{State: c.St, Stack: c.Stack, What: "'#' goes to the reader of the body (" + body + " -> " + s.c.St + ")", Trace: ex.trace(id)})
				break
			}
		}
	}
	return out, sites
}

// ---------- the final line break is insignificant ----------

// FinalNewlineDivergence: a configuration in which the end of the input is accepted but a line break followed by the
// end of the input is refused, or the other way round.
type FinalNewlineDivergence struct {
	State, Stack, Open string
	Direct, AfterLF    string
	Trace              string
}

// eofVerdict follows the end-of-input byte from a set of configurations (re-feeds after pops and rewinds included) and
// says whether it can be consumed without an error ("accept"), only with an error ("error"), or both.
func (ex *explorer) eofVerdict(set []Config, id int) string {
	acc, rej := false, false
	front := set
	for round := 0; round < 6 && len(front) > 0; round++ {
		var next []Config
		for _, x := range front {
			row := ex.m.Trans[x.St]
			for _, o := range row[0] {
				if o.Term == TErr && guardsHold(o.Guards, x.Prev) {
					rej = true
				}
			}
			for _, s := range ex.apply(x, id, x.St, 0, 0, 0) {
				if s.w >= 1 {
					acc = true
					continue
				}
				n := s.c
				n.Replay = ""
				next = append(next, n)
			}
		}
		front = next
	}
	switch {
	case acc && rej:
		return "accept or error"
	case acc:
		return "accept"
	case rej:
		return "error"
	}
	return "stuck"
}

// FinalNewlineDivergences compares, for every explored configuration that reads fresh input and has no lexeme open,
// the end of the input with LF followed by the end of the input.
func (a *Analysis) FinalNewlineDivergences() (out []FinalNewlineDivergence, compared int) {
	ex := a.ex
	saveFinds, saveNul := ex.finds, ex.nulOrd
	ex.finds, ex.nulOrd = map[string]Finding{}, true
	defer func() { ex.finds, ex.nulOrd = saveFinds, saveNul }()
	seenKey := map[string]bool{}
	for id, c := range ex.order {
		if len(c.Replay) > 0 {
			continue
		}
		key := fmt.Sprintf("%s|%s|%s", c.St, c.Stack, c.Open)
		if seenKey[key] {
			continue
		}
		seenKey[key] = true
		var afterLF []Config
		lfErr := false
		for _, o := range ex.m.Trans[c.St]['\n'] {
			if o.Term == TErr && guardsHold(o.Guards, c.Prev) {
				lfErr = true
			}
		}
		for _, s := range ex.apply(c, id, c.St, '\n', 0, 0) {
			n := s.c
			afterLF = append(afterLF, n)
		}
		if len(afterLF) == 0 || lfErr {
			continue // a line break is not accepted here at all (or not always): nothing to compare
		}
		// follow replays after the LF
		for guard := 0; guard < 4; guard++ {
			var nx []Config
			moved := false
			for _, mc := range afterLF {
				if len(mc.Replay) == 0 {
					nx = append(nx, mc)
					continue
				}
				moved = true
				for _, s := range ex.apply(mc, id, mc.St, int(mc.Replay[0]), 0, 0) {
					nx = append(nx, s.c)
				}
			}
			afterLF = nx
			if !moved {
				break
			}
		}
		compared++
		d, l := ex.eofVerdict([]Config{c}, id), ex.eofVerdict(afterLF, id)
		if d != l {
			out = append(out, FinalNewlineDivergence{State: c.St, Stack: c.Stack, Open: c.Open, Direct: d, AfterLF: l, Trace: ex.trace(id)})
		}
	}
	return out, compared
}
