// Package scanfsm (engine E1) extracts the scanner automaton from the source of
// package scanner by partial evaluation of every step function for every byte
// value, and analyses the resulting pushdown system. No input file exists and
// the scanner is never run: this is constant propagation over the AST.
package scanfsm

import (
	"fmt"
	"go/ast"
	"go/constant"
	"go/token"
	"go/types"
	"sort"
	"strings"

	"golang.org/x/tools/go/packages"
)

// ---------- abstract values ----------

type val struct {
	known   bool
	c       constant.Value
	fn      *types.Func // function value
	isS     bool        // the scanner
	isCur   bool        // cursor + off (relative to the cursor at step start, running delta included)
	off     int
	nilness int  // 0 unknown, 1 nil, 2 non-nil
	popped  bool // result of stepStack.Pop()
	isPrev  bool // the byte just before the cursor (s.data.Byte(s.curIndex-1) with no rewind so far)
	guard   *Guard
}

// Guard is a condition on the byte preceding the cursor at the start of the step.
type Guard struct {
	K  byte
	Eq bool
}

func (g Guard) String() string {
	if g.Eq {
		return fmt.Sprintf("prev==%q", g.K)
	}
	return fmt.Sprintf("prev!=%q", g.K)
}

var unknown = val{}

type EffKind int

const (
	EFound   EffKind = iota // event at cursor offset Off (relative to the cursor at the start of the step)
	ESetStep                // s.step = Fn
	EPush                   // push Fn ("" = the current value of s.step)
	EPop                    // s.step = pop()
	ECur                    // cursor += N (N<0 rewinds)
	EJump                   // cursor += unknown non-negative amount
)

type Eff struct {
	K   EffKind
	Ev  string // event constant name for EFound
	Off int
	Fn  string
	N   int
}

func (e Eff) String() string {
	switch e.K {
	case EFound:
		return fmt.Sprintf("found(%s@%+d)", e.Ev, e.Off)
	case ESetStep:
		return "step=" + e.Fn
	case EPush:
		if e.Fn == "" {
			return "push(s.step)"
		}
		return "push(" + e.Fn + ")"
	case EPop:
		return "step=pop()"
	case ECur:
		return fmt.Sprintf("cur%+d", e.N)
	case EJump:
		return "jump-forward"
	}
	return "?"
}

// Terminal kinds of an outcome.
const (
	TOk     = "ok"
	TErr    = "err"
	TPopped = "continue-in-popped-state"
)

// Outcome is one possible behaviour of a step function on one byte.
type Outcome struct {
	Effs   []Eff
	Guards []Guard // all must hold for the byte preceding the cursor
	Term   string
	ErrOff int  // for TErr: index argument relative to the cursor at step start
	ErrCur bool // for TErr: index argument is cursor-relative (else unknown)
	Depth  int  // delegation depth reached
}

func (o Outcome) String() string {
	var ss []string
	for _, e := range o.Effs {
		ss = append(ss, e.String())
	}
	t := o.Term
	if t == TErr {
		if o.ErrCur {
			t = fmt.Sprintf("err@cursor%+d", o.ErrOff)
		} else {
			t = "err@?"
		}
	}
	g := ""
	for _, x := range o.Guards {
		g += "[" + x.String() + "]"
	}
	return g + strings.Join(ss, ";") + " => " + t
}

// Weight is the minimal net cursor movement of the outcome including the
// increment done by Next() after the step (jump-forward counts as 0).
func (o Outcome) Weight() int {
	w := 1
	for _, e := range o.Effs {
		if e.K == ECur {
			w += e.N
		}
	}
	return w
}

func (o Outcome) Rewinds() bool {
	for _, e := range o.Effs {
		if e.K == ECur && e.N < 0 {
			return true
		}
	}
	return false
}

// FinalStep returns the value of s.step after the outcome ("" = unchanged, "<pop>" = popped value).
func (o Outcome) FinalStep() string {
	s := ""
	for _, e := range o.Effs {
		switch e.K {
		case ESetStep:
			s = e.Fn
		case EPop:
			s = "<pop>"
		}
	}
	return s
}

// Machine is the extracted automaton.
type Machine struct {
	Steps            []string                  // step function names, sorted
	Trans            map[string][256][]Outcome // state -> byte -> outcomes
	Unsupported      []string                  // constructs the interpreter could not handle (fail closed)
	Pos              map[string]token.Pos
	NulGuard         bool // Next() rejects byte 0 inside the data
	InitStep         string
	EventKinds       map[string]string // event const name -> "begin:<K>" | "end:<K>" | "single"
	MaxDepth         int
	KeywordAnomalies []string
	pkg              *packages.Package
}

type interp struct {
	pkg       *packages.Package
	decls     map[*types.Func]*ast.FuncDecl
	stepT     *types.Signature
	scannerT  *types.Named
	fStep     *types.Var
	fCur      *types.Var
	fStack    *types.Var
	mFoundAt  *types.Func
	mPush     *types.Func
	mPop      *types.Func
	newErr    *types.Func // jerr.NewJApiError
	fData     *types.Var  // Scanner.data
	mDataByte *types.Func // bytes.Bytes.Byte
	pure      map[*types.Func]int
	unsup     map[string]bool
	maxDepth  int
	evNames   map[string]bool
	jerrPtr   types.Type
	inlining  map[*types.Func]bool
}

type frame struct {
	env map[types.Object]val
}

type state struct {
	effs   []Eff
	guards []Guard
	curOff int
	depth  int
}

func (st state) clone() state {
	n := st
	n.effs = append([]Eff(nil), st.effs...)
	n.guards = append([]Guard(nil), st.guards...)
	return n
}

type result struct {
	st     state
	ret    []val
	done   bool
	term   string
	errOff int
	errCur bool
}

func (in *interp) fail(st state, msg string, pos token.Pos) []result {
	in.unsup[fmt.Sprintf("%s: %s", in.pkg.Fset.Position(pos), msg)] = true
	return []result{{st: st, done: true, term: "unsupported"}}
}

func (in *interp) isStep(f *types.Func) bool {
	s, ok := f.Type().(*types.Signature)
	return ok && s.Recv() == nil && types.Identical(s, in.stepT)
}

func (in *interp) fieldOf(e ast.Expr) *types.Var {
	sel, ok := ast.Unparen(e).(*ast.SelectorExpr)
	if !ok {
		return nil
	}
	if s := in.pkg.TypesInfo.Selections[sel]; s != nil && s.Kind() == types.FieldVal {
		v, _ := s.Obj().(*types.Var)
		return v
	}
	return nil
}

func (in *interp) callee(call *ast.CallExpr) *types.Func {
	switch fun := ast.Unparen(call.Fun).(type) {
	case *ast.Ident:
		f, _ := in.pkg.TypesInfo.Uses[fun].(*types.Func)
		return f
	case *ast.SelectorExpr:
		f, _ := in.pkg.TypesInfo.Uses[fun.Sel].(*types.Func)
		return f
	}
	return nil
}

func boolVal(b bool) val { return val{known: true, c: constant.MakeBool(b)} }

func (in *interp) evalExpr(fr *frame, st state, e ast.Expr) val {
	if tv, ok := in.pkg.TypesInfo.Types[e]; ok && tv.Value != nil {
		return val{known: true, c: tv.Value}
	}
	switch x := e.(type) {
	case *ast.ParenExpr:
		return in.evalExpr(fr, st, x.X)
	case *ast.Ident:
		if x.Name == "nil" {
			if _, ok := in.pkg.TypesInfo.Uses[x].(*types.Nil); ok {
				return val{nilness: 1}
			}
		}
		obj := in.pkg.TypesInfo.Uses[x]
		if v, ok := fr.env[obj]; ok {
			return v
		}
		if f, ok := obj.(*types.Func); ok {
			return val{fn: f, nilness: 2}
		}
		return unknown
	case *ast.SelectorExpr:
		if f := in.fieldOf(x); f != nil && f == in.fCur {
			if b := in.evalExpr(fr, st, x.X); b.isS {
				return val{isCur: true, off: st.curOff}
			}
		}
		return unknown
	case *ast.BinaryExpr:
		l := in.evalExpr(fr, st, x.X)
		switch x.Op {
		case token.LAND:
			if l.known && !constant.BoolVal(l.c) {
				return l
			}
			r := in.evalExpr(fr, st, x.Y)
			if l.known && r.known {
				return boolVal(constant.BoolVal(l.c) && constant.BoolVal(r.c))
			}
			if r.known && !constant.BoolVal(r.c) {
				return r
			}
			if l.known { // true && r
				return r
			}
			if r.known { // l && true
				return l
			}
			return unknown
		case token.LOR:
			if l.known && constant.BoolVal(l.c) {
				return l
			}
			r := in.evalExpr(fr, st, x.Y)
			if l.known && r.known {
				return boolVal(constant.BoolVal(l.c) || constant.BoolVal(r.c))
			}
			if r.known && constant.BoolVal(r.c) {
				return r
			}
			return unknown
		}
		r := in.evalExpr(fr, st, x.Y)
		if l.known && r.known {
			switch x.Op {
			case token.EQL, token.NEQ, token.LSS, token.GTR, token.LEQ, token.GEQ:
				return boolVal(constant.Compare(l.c, x.Op, r.c))
			case token.ADD, token.SUB:
				return val{known: true, c: constant.BinaryOp(l.c, x.Op, r.c)}
			}
		}
		if l.isCur && r.known && (x.Op == token.ADD || x.Op == token.SUB) {
			if d, ok := constant.Int64Val(r.c); ok {
				if x.Op == token.SUB {
					d = -d
				}
				return val{isCur: true, off: l.off + int(d)}
			}
		}
		if (x.Op == token.EQL || x.Op == token.NEQ) && ((l.isPrev && r.known) || (r.isPrev && l.known)) {
			k := l.c
			if l.isPrev {
				k = r.c
			}
			if kv, ok := constant.Int64Val(constant.ToInt(k)); ok && kv >= 0 && kv < 256 {
				return val{guard: &Guard{K: byte(kv), Eq: x.Op == token.EQL}}
			}
		}
		// nil comparisons with known nilness
		if x.Op == token.EQL || x.Op == token.NEQ {
			if (l.nilness == 1 && r.nilness != 0) || (r.nilness == 1 && l.nilness != 0) {
				eq := l.nilness == r.nilness
				if x.Op == token.NEQ {
					eq = !eq
				}
				return boolVal(eq)
			}
		}
		return unknown
	case *ast.UnaryExpr:
		v := in.evalExpr(fr, st, x.X)
		if x.Op == token.NOT && v.known {
			return boolVal(!constant.BoolVal(v.c))
		}
		if x.Op == token.NOT && v.guard != nil {
			return val{guard: &Guard{K: v.guard.K, Eq: !v.guard.Eq}}
		}
		return unknown
	case *ast.CallExpr:
		// s.data.Byte(s.curIndex-1): the byte preceding the cursor
		if in.mDataByte != nil && in.callee(x) == in.mDataByte && len(x.Args) == 1 {
			if sel, ok := ast.Unparen(x.Fun).(*ast.SelectorExpr); ok {
				if f := in.fieldOf(sel.X); f != nil && f == in.fData {
					if a := in.evalExpr(fr, st, x.Args[0]); a.isCur && a.off == -1 && st.curOff == 0 {
						return val{isPrev: true}
					}
				}
			}
		}
		// conversion?
		if tv, ok := in.pkg.TypesInfo.Types[x.Fun]; ok && tv.IsType() && len(x.Args) == 1 {
			v := in.evalExpr(fr, st, x.Args[0])
			if v.known || v.isCur {
				return v
			}
			return unknown
		}
		f := in.callee(x)
		if f != nil && in.decls[f] != nil && !in.isStep(f) {
			// pure helper with concrete args
			args := make([]val, len(x.Args))
			all := true
			for i, a := range x.Args {
				args[i] = in.evalExpr(fr, st, a)
				if !args[i].known {
					all = false
				}
			}
			if all && len(args) > 0 {
				if rs := in.callPure(f, args); rs != nil {
					return *rs
				}
			}
			// a predicate helper whose body is one returned expression (a guard moved into a function or a method of
			// the scanner): its value is that expression in the current state
			if v, ok := in.inlineExpr(f, fr, st, x, 0); ok {
				return v
			}
		}
		return unknown
	}
	return unknown
}

// inlineExpr evaluates a call of a same-package helper whose body is `return <expr>` (no statements, hence no
// effects besides those of the expression, which evalExpr does not perform) by evaluating <expr> with the
// parameters and the receiver bound to the argument values.
func (in *interp) inlineExpr(f *types.Func, caller *frame, st state, call *ast.CallExpr, depth int) (val, bool) {
	d := in.decls[f]
	if d == nil || d.Body == nil || len(d.Body.List) != 1 || in.inlining[f] {
		return unknown, false
	}
	ret, ok := d.Body.List[0].(*ast.ReturnStmt)
	if !ok || len(ret.Results) != 1 {
		return unknown, false
	}
	if why := in.impureCallIn(ret.Results[0]); why != "" {
		return unknown, false
	}
	fr := &frame{env: map[types.Object]val{}}
	if d.Recv != nil && len(d.Recv.List) == 1 && len(d.Recv.List[0].Names) == 1 {
		if sel, ok := ast.Unparen(call.Fun).(*ast.SelectorExpr); ok {
			fr.env[in.pkg.TypesInfo.Defs[d.Recv.List[0].Names[0]]] = in.evalExpr(caller, st, sel.X)
		}
	}
	i := 0
	for _, fl := range d.Type.Params.List {
		for _, n := range fl.Names {
			if i < len(call.Args) && n.Name != "_" {
				fr.env[in.pkg.TypesInfo.Defs[n]] = in.evalExpr(caller, st, call.Args[i])
			}
			i++
		}
		if len(fl.Names) == 0 {
			i++
		}
	}
	if in.inlining == nil {
		in.inlining = map[*types.Func]bool{}
	}
	in.inlining[f] = true
	v := in.evalExpr(fr, st, ret.Results[0])
	delete(in.inlining, f)
	return v, true
}

// callPure evaluates an effect-free same-package function on constant arguments.
func (in *interp) callPure(f *types.Func, args []val) *val {
	d := in.decls[f]
	if d.Recv != nil {
		return nil
	}
	fr := &frame{env: map[types.Object]val{}}
	i := 0
	for _, fl := range d.Type.Params.List {
		for _, n := range fl.Names {
			if i < len(args) {
				fr.env[in.pkg.TypesInfo.Defs[n]] = args[i]
			}
			i++
		}
	}
	save, saveDepth := in.unsup, in.maxDepth
	in.unsup = map[string]bool{}
	rs := in.execBlock(fr, []state{{}}, d.Body.List)
	bad := len(in.unsup) > 0
	in.unsup, in.maxDepth = save, saveDepth
	if bad {
		return nil
	}
	var out *val
	for _, r := range rs {
		if !r.done || len(r.ret) != 1 || !r.ret[0].known || len(r.st.effs) != 0 {
			return nil
		}
		if out != nil && constant.Compare(out.c, token.NEQ, r.ret[0].c) {
			return nil
		}
		v := r.ret[0]
		out = &v
	}
	return out
}

func (in *interp) execBlock(fr *frame, sts []state, list []ast.Stmt) []result {
	var finished []result
	cur := sts
	for _, s := range list {
		var next []state
		for _, st := range cur {
			for _, r := range in.execStmt(fr, st, s) {
				if r.done {
					finished = append(finished, r)
				} else {
					next = append(next, r.st)
				}
			}
		}
		cur = next
		if len(cur) == 0 {
			break
		}
	}
	for _, st := range cur {
		finished = append(finished, result{st: st})
	}
	return finished
}

// refine returns copies of the environment for the true and false outcome of cond,
// recording nil-ness facts of identifiers compared with nil.
func (in *interp) refine(fr *frame, cond ast.Expr) (t, f *frame) {
	t, f = fr, fr
	be, ok := ast.Unparen(cond).(*ast.BinaryExpr)
	if !ok || (be.Op != token.EQL && be.Op != token.NEQ) {
		return
	}
	var id *ast.Ident
	if isNilIdent(be.Y) {
		id, _ = ast.Unparen(be.X).(*ast.Ident)
	} else if isNilIdent(be.X) {
		id, _ = ast.Unparen(be.Y).(*ast.Ident)
	}
	if id == nil {
		return
	}
	obj := in.pkg.TypesInfo.Uses[id]
	if obj == nil {
		return
	}
	cp := func(n int) *frame {
		nf := &frame{env: map[types.Object]val{}}
		for k, v := range fr.env {
			nf.env[k] = v
		}
		v := nf.env[obj]
		v.nilness = n
		nf.env[obj] = v
		return nf
	}
	if be.Op == token.NEQ {
		return cp(2), cp(1)
	}
	return cp(1), cp(2)
}

func isNilIdent(e ast.Expr) bool {
	id, ok := ast.Unparen(e).(*ast.Ident)
	return ok && id.Name == "nil"
}

func (in *interp) execStmt(fr *frame, st state, s ast.Stmt) []result {
	switch x := s.(type) {
	case *ast.BlockStmt:
		return in.execBlock(fr, []state{st}, x.List)
	case *ast.EmptyStmt:
		return []result{{st: st}}
	case *ast.ReturnStmt:
		if len(x.Results) == 1 {
			if call, ok := ast.Unparen(x.Results[0]).(*ast.CallExpr); ok {
				if tv, ok := in.pkg.TypesInfo.Types[call.Fun]; !ok || !tv.IsType() {
					return in.execCall(fr, st, call, true)
				}
			}
		}
		r := result{st: st, done: true}
		for _, e := range x.Results {
			r.ret = append(r.ret, in.evalExpr(fr, st, e))
		}
		if len(x.Results) == 1 {
			if t := in.pkg.TypesInfo.TypeOf(x.Results[0]); t != nil && (types.Identical(t, in.jerrPtr) || isUntypedNil(t)) {
				switch r.ret[0].nilness {
				case 1:
					r.term = TOk
				case 2:
					r.term = TErr // an error produced by a callee; its index is not tracked
				default:
					return in.fail(st, "return of a *JApiError value of unknown nil-ness", x.Pos())
				}
			}
		}
		return []result{r}
	case *ast.ExprStmt:
		if call, ok := ast.Unparen(x.X).(*ast.CallExpr); ok {
			return in.execCall(fr, st, call, false)
		}
		return in.fail(st, "expression statement", x.Pos())
	case *ast.IncDecStmt:
		if f := in.fieldOf(x.X); f != nil && f == in.fCur {
			n := st.clone()
			d := 1
			if x.Tok == token.DEC {
				d = -1
			}
			n.effs = append(n.effs, Eff{K: ECur, N: d})
			n.curOff += d
			return []result{{st: n}}
		}
		return in.fail(st, "inc/dec of something else than the cursor", x.Pos())
	case *ast.DeclStmt:
		gd, ok := x.Decl.(*ast.GenDecl)
		if !ok || gd.Tok != token.VAR {
			return in.fail(st, "declaration", x.Pos())
		}
		for _, sp := range gd.Specs {
			vs := sp.(*ast.ValueSpec)
			for i, n := range vs.Names {
				v := unknown
				if i < len(vs.Values) {
					v = in.evalExpr(fr, st, vs.Values[i])
				}
				fr.env[in.pkg.TypesInfo.Defs[n]] = v
			}
		}
		return []result{{st: st}}
	case *ast.AssignStmt:
		return in.execAssign(fr, st, x)
	case *ast.IfStmt:
		if x.Init != nil {
			rs := in.execStmt(fr, st, x.Init)
			if len(rs) != 1 || rs[0].done {
				return in.fail(st, "if-init with control flow", x.Pos())
			}
			st = rs[0].st
		}
		v := in.evalExpr(fr, st, x.Cond)
		tf, ff := in.refine(fr, x.Cond)
		var out []result
		stT, stF := st.clone(), st.clone()
		if v.guard != nil {
			stT.guards = append(stT.guards, *v.guard)
			stF.guards = append(stF.guards, Guard{K: v.guard.K, Eq: !v.guard.Eq})
		}
		if !v.known || constant.BoolVal(v.c) {
			out = append(out, in.execStmt(tf, stT, x.Body)...)
		}
		if !v.known || !constant.BoolVal(v.c) {
			if x.Else != nil {
				out = append(out, in.execStmt(ff, stF, x.Else)...)
			} else {
				out = append(out, result{st: stF})
			}
		}
		if tf != fr || ff != fr {
			// facts learnt in a branch that falls through are dropped (sound: back to unknown)
		}
		return out
	case *ast.SwitchStmt:
		if x.Init != nil {
			return in.fail(st, "switch with init", x.Pos())
		}
		var tag *val
		if x.Tag != nil {
			t := in.evalExpr(fr, st, x.Tag)
			tag = &t
		}
		var out []result
		var def *ast.CaseClause
		sure := false
		for _, cs := range x.Body.List {
			cc := cs.(*ast.CaseClause)
			if cc.List == nil {
				def = cc
				continue
			}
			may, must := false, false
			for _, e := range cc.List {
				ev := in.evalExpr(fr, st, e)
				if tag != nil {
					if tag.known && ev.known {
						if constant.Compare(tag.c, token.EQL, ev.c) {
							must = true
						}
					} else {
						may = true
					}
				} else {
					if ev.known {
						if constant.BoolVal(ev.c) {
							must = true
						}
					} else {
						may = true
					}
				}
				if must {
					break
				}
			}
			if must || may {
				for _, r := range in.execBlock(fr, []state{st.clone()}, cc.Body) {
					if hasFallthrough(cc.Body) {
						return in.fail(st, "fallthrough", cc.Pos())
					}
					out = append(out, r)
				}
			}
			if must {
				sure = true
				break
			}
		}
		if !sure {
			if def != nil {
				out = append(out, in.execBlock(fr, []state{st.clone()}, def.Body)...)
			} else {
				out = append(out, result{st: st.clone()})
			}
		}
		return out
	}
	return in.fail(st, fmt.Sprintf("statement %T", s), s.Pos())
}

func hasFallthrough(list []ast.Stmt) bool {
	for _, s := range list {
		if b, ok := s.(*ast.BranchStmt); ok && b.Tok == token.FALLTHROUGH {
			return true
		}
	}
	return false
}

func isUntypedNil(t types.Type) bool {
	b, ok := t.(*types.Basic)
	return ok && b.Kind() == types.UntypedNil
}

func (in *interp) execAssign(fr *frame, st state, x *ast.AssignStmt) []result {
	// scanner field targets
	if len(x.Lhs) == 1 && len(x.Rhs) == 1 {
		if f := in.fieldOf(x.Lhs[0]); f != nil {
			base := in.evalExpr(fr, st, x.Lhs[0].(*ast.SelectorExpr).X)
			if !base.isS {
				return in.fail(st, "assignment to a field of something else than the scanner", x.Pos())
			}
			switch f {
			case in.fStep:
				if x.Tok != token.ASSIGN {
					return in.fail(st, "step op-assign", x.Pos())
				}
				n := st.clone()
				if call, ok := ast.Unparen(x.Rhs[0]).(*ast.CallExpr); ok && in.callee(call) == in.mPop {
					n.effs = append(n.effs, Eff{K: EPop})
					return []result{{st: n}}
				}
				v := in.evalExpr(fr, st, x.Rhs[0])
				if v.fn == nil || !in.isStep(v.fn) {
					// a helper of the package that chooses between step functions: one outcome per function it can return
					if fns := in.stepFuncResults(x.Rhs[0], 0); len(fns) > 0 {
						var out []result
						for _, fn := range fns {
							m := st.clone()
							m.effs = append(m.effs, Eff{K: ESetStep, Fn: fn.Name()})
							out = append(out, result{st: m})
						}
						return out
					}
					return in.fail(st, "s.step assigned a value that is not a step function constant", x.Pos())
				}
				n.effs = append(n.effs, Eff{K: ESetStep, Fn: v.fn.Name()})
				return []result{{st: n}}
			case in.fCur:
				n := st.clone()
				switch x.Tok {
				case token.SUB_ASSIGN, token.ADD_ASSIGN:
					v := in.evalExpr(fr, st, x.Rhs[0])
					if v.known {
						d64, _ := constant.Int64Val(v.c)
						d := int(d64)
						if x.Tok == token.SUB_ASSIGN {
							d = -d
						}
						n.effs = append(n.effs, Eff{K: ECur, N: d})
						n.curOff += d
						return []result{{st: n}}
					}
					if x.Tok == token.ADD_ASSIGN {
						// forward jump by a data-dependent unsigned amount
						if t := in.pkg.TypesInfo.TypeOf(x.Rhs[0]); t != nil {
							if b, ok := t.Underlying().(*types.Basic); ok && b.Info()&types.IsUnsigned != 0 {
								n.effs = append(n.effs, Eff{K: EJump})
								return []result{{st: n}}
							}
						}
					}
					return in.fail(st, "cursor moved by an unknown amount", x.Pos())
				}
				return in.fail(st, "cursor assigned", x.Pos())
			default:
				return in.fail(st, "assignment to scanner field "+f.Name(), x.Pos())
			}
		}
	}
	// local variables
	for _, l := range x.Lhs {
		id, ok := ast.Unparen(l).(*ast.Ident)
		if !ok {
			return in.fail(st, "assignment to a non-identifier", x.Pos())
		}
		if id.Name == "_" {
			continue
		}
		obj := in.pkg.TypesInfo.Defs[id]
		if obj == nil {
			obj = in.pkg.TypesInfo.Uses[id]
		}
		if v, ok := obj.(*types.Var); !ok || v.Parent() == in.pkg.Types.Scope() || v.IsField() {
			return in.fail(st, "assignment to a non-local variable "+id.Name, x.Pos())
		}
	}
	// evaluate RHS; calls in expression position must be scanner-pure
	for _, r := range x.Rhs {
		if msg := in.impureCallIn(r); msg != "" {
			return in.fail(st, msg, x.Pos())
		}
	}
	// a, b := helper(c) with constant arguments: the helper is run (it chooses by the byte)
	var tuple []val
	if len(x.Rhs) == 1 && len(x.Lhs) > 1 {
		if call, ok := ast.Unparen(x.Rhs[0]).(*ast.CallExpr); ok {
			if f := in.callee(call); f != nil && in.decls[f] != nil && !in.isStep(f) {
				args := make([]val, len(call.Args))
				all := true
				for k, a := range call.Args {
					args[k] = in.evalExpr(fr, st, a)
					if !args[k].known {
						all = false
					}
				}
				if all {
					tuple = in.callPureTuple(f, args)
				}
			}
		}
	}
	for i, l := range x.Lhs {
		id := ast.Unparen(l).(*ast.Ident)
		if id.Name == "_" {
			continue
		}
		obj := in.pkg.TypesInfo.Defs[id]
		if obj == nil {
			obj = in.pkg.TypesInfo.Uses[id]
		}
		v := unknown
		if len(x.Rhs) == len(x.Lhs) && x.Tok != token.ADD_ASSIGN && x.Tok != token.SUB_ASSIGN {
			v = in.evalExpr(fr, st, x.Rhs[i])
		} else if len(x.Rhs) == 1 && len(x.Lhs) > 1 && tuple != nil && i < len(tuple) {
			v = tuple[i]
		}
		fr.env[obj] = v
	}
	return []result{{st: st}}
}

// callPureTuple evaluates an effect-free same-package function with several results on constant arguments: the
// tuple of results when every path through it gives the same one (constants, function values, nil-ness).
func (in *interp) callPureTuple(f *types.Func, args []val) []val {
	d := in.decls[f]
	if d == nil || d.Body == nil || d.Recv != nil || !in.isPure(f) {
		return nil
	}
	fr := &frame{env: map[types.Object]val{}}
	i := 0
	for _, fl := range d.Type.Params.List {
		for _, n := range fl.Names {
			if i < len(args) {
				fr.env[in.pkg.TypesInfo.Defs[n]] = args[i]
			}
			i++
		}
	}
	save, saveDepth := in.unsup, in.maxDepth
	in.unsup = map[string]bool{}
	rs := in.execBlock(fr, []state{{}}, d.Body.List)
	bad := len(in.unsup) > 0
	in.unsup, in.maxDepth = save, saveDepth
	if bad || len(rs) == 0 {
		return nil
	}
	same := func(a, b val) bool {
		switch {
		case a.known != b.known || (a.fn == nil) != (b.fn == nil) || a.nilness != b.nilness:
			return false
		case a.known:
			return constant.Compare(a.c, token.EQL, b.c)
		case a.fn != nil:
			return a.fn == b.fn
		}
		return a.nilness != 0 // both nil / both non-nil and nothing else known
	}
	var out []val
	for _, r := range rs {
		if !r.done || len(r.st.effs) != 0 || len(r.ret) == 0 {
			return nil
		}
		if out == nil {
			out = r.ret
			continue
		}
		if len(out) != len(r.ret) {
			return nil
		}
		for k := range out {
			if !same(out[k], r.ret[k]) {
				return nil
			}
		}
	}
	return out
}

// impureCallIn reports a call inside e (expression position) that may change scanner state.
func (in *interp) impureCallIn(e ast.Expr) string {
	msg := ""
	ast.Inspect(e, func(n ast.Node) bool {
		call, ok := n.(*ast.CallExpr)
		if !ok || msg != "" {
			return msg == ""
		}
		if tv, ok := in.pkg.TypesInfo.Types[call.Fun]; ok && tv.IsType() {
			return true
		}
		f := in.callee(call)
		if f == nil {
			if _, ok := in.pkg.TypesInfo.Types[call.Fun]; ok {
				// call through a function value
				msg = "call through a function value in expression position"
			}
			return true
		}
		if f.Pkg() == in.pkg.Types && !in.isPure(f) {
			msg = "call of " + f.Name() + " in expression position may change scanner state"
		}
		return true
	})
	return msg
}

// isPure: the function (same package) never writes scanner fields nor calls anything that does.
func (in *interp) isPure(f *types.Func) bool {
	if v, ok := in.pure[f]; ok {
		return v == 1 || v == 2 // in progress counts as pure (recursion)
	}
	if f == in.mFoundAt || f == in.mPush || f == in.mPop {
		in.pure[f] = 3
		return false
	}
	d := in.decls[f]
	if d == nil || d.Body == nil {
		in.pure[f] = 3
		return false
	}
	in.pure[f] = 2
	ok := true
	ast.Inspect(d.Body, func(n ast.Node) bool {
		if !ok {
			return false
		}
		switch x := n.(type) {
		case *ast.AssignStmt:
			for _, l := range x.Lhs {
				if in.writesNonLocal(l) {
					ok = false
				}
			}
		case *ast.IncDecStmt:
			if in.writesNonLocal(x.X) {
				ok = false
			}
		case *ast.CallExpr:
			if tv, okk := in.pkg.TypesInfo.Types[x.Fun]; okk && tv.IsType() {
				return true
			}
			c := in.callee(x)
			if c == nil {
				if id, isId := ast.Unparen(x.Fun).(*ast.Ident); isId {
					if _, isB := in.pkg.TypesInfo.Uses[id].(*types.Builtin); isB {
						return true
					}
				}
				if _, isLit := ast.Unparen(x.Fun).(*ast.FuncLit); isLit {
					return true // a literal called on the spot (the deferred recover): its body is judged by the descent
				}
				if in.pureFuncParam(f, d, x) {
					return true // a function handed in as a parameter: every caller hands in a pure package-level function
				}
				ok = false
				return false
			}
			if c.Pkg() == in.pkg.Types && !in.isPure(c) {
				ok = false
			}
		case *ast.GoStmt:
			ok = false
		case *ast.DeferStmt:
			// a deferred function literal is judged like the rest of the body (the recover idiom stores into the named
			// result of the function, a local): anything else deferred is not followed
			if _, isLit := x.Call.Fun.(*ast.FuncLit); !isLit {
				ok = false
			}
		}
		return ok
	})
	if ok {
		in.pure[f] = 1
	} else {
		in.pure[f] = 3
	}
	return ok
}

// pureFuncParam: the call goes through a parameter of function type of f, and every call of f in the package passes a
// package-level function that is pure for that parameter.
func (in *interp) pureFuncParam(f *types.Func, d *ast.FuncDecl, call *ast.CallExpr) bool {
	id, ok := ast.Unparen(call.Fun).(*ast.Ident)
	if !ok {
		return false
	}
	obj := in.pkg.TypesInfo.Uses[id]
	idx := -1
	k := 0
	if d.Type.Params != nil {
		for _, fld := range d.Type.Params.List {
			for _, nm := range fld.Names {
				if in.pkg.TypesInfo.Defs[nm] == obj {
					idx = k
				}
				k++
			}
		}
	}
	if idx < 0 {
		return false
	}
	sites := 0
	good := true
	for _, gd := range in.decls {
		ast.Inspect(gd.Body, func(n ast.Node) bool {
			c2, ok := n.(*ast.CallExpr)
			if !ok || in.callee(c2) != f {
				return true
			}
			sites++
			if idx >= len(c2.Args) {
				good = false
				return true
			}
			aid, ok := ast.Unparen(c2.Args[idx]).(*ast.Ident)
			if !ok {
				good = false
				return true
			}
			af, ok := in.pkg.TypesInfo.Uses[aid].(*types.Func)
			if !ok || af.Pkg() != in.pkg.Types || !in.isPure(af) {
				good = false
			}
			return true
		})
	}
	return sites > 0 && good
}

func (in *interp) writesNonLocal(l ast.Expr) bool {
	switch x := ast.Unparen(l).(type) {
	case *ast.Ident:
		if x.Name == "_" {
			return false
		}
		obj := in.pkg.TypesInfo.Defs[x]
		if obj == nil {
			obj = in.pkg.TypesInfo.Uses[x]
		}
		v, ok := obj.(*types.Var)
		return !ok || v.Parent() == in.pkg.Types.Scope()
	default:
		return true // field, index, deref: conservatively a write to shared state
	}
}

func (in *interp) lastStep(st state) (string, bool) {
	for i := len(st.effs) - 1; i >= 0; i-- {
		switch st.effs[i].K {
		case ESetStep:
			return st.effs[i].Fn, true
		case EPop:
			return "", true
		}
	}
	return "", false
}

const maxDelegation = 12

func (in *interp) execCall(fr *frame, st state, call *ast.CallExpr, isReturn bool) []result {
	fin := func(n state) []result {
		if isReturn {
			return in.fail(st, "return of a primitive call", call.Pos())
		}
		return []result{{st: n}}
	}
	// call through the field s.step
	if f := in.fieldOf(call.Fun); f != nil && f == in.fStep {
		if !isReturn {
			return in.fail(st, "s.step(s,c) result ignored", call.Pos())
		}
		fn, ok := in.lastStep(st)
		if !ok {
			return in.fail(st, "s.step(s,c) without a preceding assignment in the same step", call.Pos())
		}
		if fn == "" {
			return []result{{st: st, done: true, term: TPopped}}
		}
		tf, _ := in.pkg.Types.Scope().Lookup(fn).(*types.Func)
		return in.inline(tf, fr, st, call)
	}
	f := in.callee(call)
	if f == nil {
		return in.fail(st, "call of an unresolved function value", call.Pos())
	}
	switch f {
	case in.mFoundAt:
		pos := in.evalExpr(fr, st, call.Args[0])
		if !pos.isCur {
			return in.fail(st, "foundAt position is not cursor-relative", call.Pos())
		}
		ev := in.eventName(call.Args[1], fr)
		if ev == "" {
			return in.fail(st, "foundAt event is not a constant", call.Pos())
		}
		n := st.clone()
		n.effs = append(n.effs, Eff{K: EFound, Ev: ev, Off: pos.off})
		return fin(n)
	case in.mPush:
		n := st.clone()
		if fld := in.fieldOf(call.Args[0]); fld != nil && fld == in.fStep {
			n.effs = append(n.effs, Eff{K: EPush, Fn: ""})
			return fin(n)
		}
		v := in.evalExpr(fr, st, call.Args[0])
		if v.fn == nil || !in.isStep(v.fn) {
			if fns := in.stepFuncResults(call.Args[0], 0); len(fns) > 0 {
				var out []result
				for _, fn := range fns {
					m := st.clone()
					m.effs = append(m.effs, Eff{K: EPush, Fn: fn.Name()})
					out = append(out, fin(m)...)
				}
				return out
			}
			return in.fail(st, "push of a value that is not a step function constant", call.Pos())
		}
		n.effs = append(n.effs, Eff{K: EPush, Fn: v.fn.Name()})
		return fin(n)
	case in.mPop:
		return in.fail(st, "stepStack.Pop() result not assigned to s.step", call.Pos())
	case in.newErr:
		if !isReturn {
			return in.fail(st, "error constructed but not returned", call.Pos())
		}
		r := result{st: st, done: true, term: TErr}
		if len(call.Args) == 3 {
			if iv := in.evalExpr(fr, st, call.Args[2]); iv.isCur {
				r.errCur, r.errOff = true, iv.off
			}
		}
		return []result{r}
	}
	if f.Pkg() == in.pkg.Types && in.decls[f] != nil {
		rs := in.inline(f, fr, st, call)
		if !isReturn {
			var out []result
			for _, r := range rs {
				if r.term == "unsupported" {
					out = append(out, r)
					continue
				}
				if r.term == TErr || r.term == TPopped {
					return in.fail(st, "result of "+f.Name()+" ignored although it can fail or delegate", call.Pos())
				}
				r.done, r.term, r.ret = false, "", nil
				out = append(out, r)
			}
			return out
		}
		return rs
	}
	if !isReturn {
		// external call as a statement: no scanner state is reachable from other packages
		// unless the scanner itself is passed
		for _, a := range call.Args {
			if in.evalExpr(fr, st, a).isS {
				return in.fail(st, "scanner passed to an external function", call.Pos())
			}
		}
		return []result{{st: st}}
	}
	return in.fail(st, "return of a call to "+f.FullName(), call.Pos())
}

func (in *interp) eventName(e ast.Expr, fr *frame) string {
	if id, ok := ast.Unparen(e).(*ast.Ident); ok {
		if c, ok := in.pkg.TypesInfo.Uses[id].(*types.Const); ok && in.evNames[c.Name()] {
			return c.Name()
		}
		if v, ok := fr.env[in.pkg.TypesInfo.Uses[id]]; ok && v.known {
			return in.eventByValue(v.c)
		}
	}
	return ""
}

func (in *interp) eventByValue(c constant.Value) string {
	for n := range in.evNames {
		if k, ok := in.pkg.Types.Scope().Lookup(n).(*types.Const); ok && constant.Compare(k.Val(), token.EQL, c) {
			return n
		}
	}
	return ""
}

func (in *interp) inline(f *types.Func, caller *frame, st state, call *ast.CallExpr) []result {
	d := in.decls[f]
	if d == nil || d.Body == nil {
		return in.fail(st, "no body for "+f.Name(), call.Pos())
	}
	if st.depth+1 > maxDelegation {
		return in.fail(st, "delegation depth exceeded (cycle?)", call.Pos())
	}
	fr := &frame{env: map[types.Object]val{}}
	if d.Recv != nil && len(d.Recv.List) == 1 && len(d.Recv.List[0].Names) == 1 {
		if sel, ok := ast.Unparen(call.Fun).(*ast.SelectorExpr); ok {
			fr.env[in.pkg.TypesInfo.Defs[d.Recv.List[0].Names[0]]] = in.evalExpr(caller, st, sel.X)
		}
	}
	i := 0
	for _, fl := range d.Type.Params.List {
		for _, n := range fl.Names {
			if i < len(call.Args) && n.Name != "_" {
				fr.env[in.pkg.TypesInfo.Defs[n]] = in.evalExpr(caller, st, call.Args[i])
			}
			i++
		}
		if len(fl.Names) == 0 {
			i++
		}
	}
	if d.Type.Results != nil {
		for _, fl := range d.Type.Results.List {
			for range fl.Names {
				return in.fail(st, "named results in "+f.Name(), call.Pos())
			}
		}
	}
	st.depth++
	if st.depth > in.maxDepth {
		in.maxDepth = st.depth
	}
	rs := in.execBlock(fr, []state{st}, d.Body.List)
	for i := range rs {
		if !rs[i].done {
			if d.Type.Results != nil && len(d.Type.Results.List) > 0 {
				rs[i] = in.fail(st, "function "+f.Name()+" can fall off its end", call.Pos())[0]
			} else {
				rs[i].done = true
				rs[i].term = TOk
			}
		}
		rs[i].st.depth--
	}
	return rs
}

// Extract builds the machine from the type-checked scanner package.
func Extract(pkg *packages.Package, jerrPkg *types.Package) (*Machine, error) {
	in := &interp{pkg: pkg, decls: map[*types.Func]*ast.FuncDecl{}, pure: map[*types.Func]int{}, unsup: map[string]bool{}, evNames: map[string]bool{}}
	scope := pkg.Types.Scope()
	stepTN, _ := scope.Lookup("stepFunc").(*types.TypeName)
	scTN, _ := scope.Lookup("Scanner").(*types.TypeName)
	if stepTN == nil || scTN == nil {
		return nil, fmt.Errorf("anchor scanner.stepFunc / scanner.Scanner not found")
	}
	in.stepT, _ = stepTN.Type().Underlying().(*types.Signature)
	in.scannerT, _ = scTN.Type().(*types.Named)
	stt, _ := in.scannerT.Underlying().(*types.Struct)
	if in.stepT == nil || stt == nil {
		return nil, fmt.Errorf("anchor types have unexpected shape")
	}
	// fields are identified by their types, not by their names
	var stackT types.Type
	for i := 0; i < stt.NumFields(); i++ {
		f := stt.Field(i)
		if types.Identical(f.Type(), stepTN.Type()) {
			if in.fStep != nil {
				return nil, fmt.Errorf("two fields of type stepFunc in Scanner")
			}
			in.fStep = f
		}
		if sl, ok := f.Type().Underlying().(*types.Slice); ok && types.Identical(sl.Elem(), stepTN.Type()) {
			in.fStack = f
			stackT = f.Type()
		}
	}
	if in.fStep == nil || in.fStack == nil {
		return nil, fmt.Errorf("Scanner has no step / step-stack field")
	}
	for i := 0; i < stt.NumFields(); i++ {
		f := stt.Field(i)
		if obj, _, _ := types.LookupFieldOrMethod(f.Type(), true, pkg.Types, "Byte"); obj != nil {
			if m, ok := obj.(*types.Func); ok && in.fData == nil {
				if sig := m.Type().(*types.Signature); sig.Params().Len() == 1 && sig.Results().Len() == 1 {
					if b, ok := sig.Results().At(0).Type().Underlying().(*types.Basic); ok && b.Kind() == types.Uint8 {
						in.fData, in.mDataByte = f, m
					}
				}
			}
		}
	}
	// the cursor is the field read by CurrentIndex()
	m := &Machine{Trans: map[string][256][]Outcome{}, Pos: map[string]token.Pos{}, EventKinds: map[string]string{}, pkg: pkg}
	for _, f := range pkg.Syntax {
		if strings.HasSuffix(pkg.Fset.Position(f.Pos()).Filename, "_test.go") {
			continue
		}
		for _, d := range f.Decls {
			if fd, ok := d.(*ast.FuncDecl); ok && fd.Body != nil {
				if fn, ok := pkg.TypesInfo.Defs[fd.Name].(*types.Func); ok {
					in.decls[fn] = fd
				}
			}
		}
	}
	method := func(t types.Type, name string) *types.Func {
		obj, _, _ := types.LookupFieldOrMethod(types.NewPointer(t), true, pkg.Types, name)
		f, _ := obj.(*types.Func)
		return f
	}
	if ci := method(in.scannerT, "CurrentIndex"); ci != nil && in.decls[ci] != nil {
		ast.Inspect(in.decls[ci].Body, func(n ast.Node) bool {
			if r, ok := n.(*ast.ReturnStmt); ok && len(r.Results) == 1 {
				in.fCur = in.fieldOf(r.Results[0])
			}
			return true
		})
	}
	if in.fCur == nil {
		return nil, fmt.Errorf("cannot identify the cursor field via (*Scanner).CurrentIndex")
	}
	in.mFoundAt = method(in.scannerT, "foundAt")
	in.mPush = method(stackT, "Push")
	in.mPop = method(stackT, "Pop")
	if in.mFoundAt == nil || in.mPush == nil || in.mPop == nil {
		return nil, fmt.Errorf("anchors foundAt / stepStack.Push / stepStack.Pop not found")
	}
	if jerrPkg != nil {
		in.newErr, _ = jerrPkg.Scope().Lookup("NewJApiError").(*types.Func)
		if tn, ok := jerrPkg.Scope().Lookup("JApiError").(*types.TypeName); ok {
			in.jerrPtr = types.NewPointer(tn.Type())
		}
	}
	if in.newErr == nil || in.jerrPtr == nil {
		return nil, fmt.Errorf("anchor jerr.NewJApiError not found")
	}
	// event constants and their classification (from IsBeginning/IsEnding/IsSingle via the type's constants)
	evTN, _ := scope.Lookup("LexemeEventType").(*types.TypeName)
	if evTN == nil {
		return nil, fmt.Errorf("anchor scanner.LexemeEventType not found")
	}
	for _, n := range scope.Names() {
		if c, ok := scope.Lookup(n).(*types.Const); ok && types.Identical(c.Type(), evTN.Type()) {
			in.evNames[n] = true
		}
	}
	classify := func(meth string) map[string]bool {
		out := map[string]bool{}
		f := method(evTN.Type(), meth)
		if f == nil || in.decls[f] == nil {
			return out
		}
		for n := range in.evNames {
			c := scope.Lookup(n).(*types.Const)
			if r := in.callPureRecv(f, val{known: true, c: c.Val()}); r != nil && r.known && constant.BoolVal(r.c) {
				out[n] = true
			}
		}
		return out
	}
	beg, end, single := classify("IsBeginning"), classify("IsEnding"), classify("IsSingle")
	// begin/end pairing is read from processLexemeEvent's accepted pairs: resolved by name stem as written in
	// the constants (XBegin/XEnd); the pairs are cross-checked by rule C12-PAIRS against the switch there.
	for n := range in.evNames {
		switch {
		case beg[n]:
			m.EventKinds[n] = "begin:" + strings.TrimSuffix(n, "Begin")
		case end[n]:
			m.EventKinds[n] = "end:" + strings.TrimSuffix(n, "End")
		case single[n]:
			m.EventKinds[n] = "single"
		default:
			m.EventKinds[n] = "unclassified"
		}
	}
	// initial step: the value stored in the step field by NewJApiScanner
	if ctor, ok := scope.Lookup("NewJApiScanner").(*types.Func); ok && in.decls[ctor] != nil {
		ast.Inspect(in.decls[ctor].Body, func(n ast.Node) bool {
			if kv, ok := n.(*ast.KeyValueExpr); ok {
				if id, ok := kv.Key.(*ast.Ident); ok && pkg.TypesInfo.Uses[id] == in.fStep {
					if vid, ok := ast.Unparen(kv.Value).(*ast.Ident); ok {
						if f, ok := pkg.TypesInfo.Uses[vid].(*types.Func); ok {
							m.InitStep = f.Name()
						}
					}
				}
			}
			return true
		})
	}
	if m.InitStep == "" {
		return nil, fmt.Errorf("cannot determine the initial step from NewJApiScanner")
	}
	m.NulGuard = in.nextHasNulGuard(method(in.scannerT, "Next"))

	var steps []*types.Func
	for f := range in.decls {
		if in.isStep(f) {
			steps = append(steps, f)
		}
	}
	sort.Slice(steps, func(i, j int) bool { return steps[i].Name() < steps[j].Name() })
	for _, f := range steps {
		m.Steps = append(m.Steps, f.Name())
		m.Pos[f.Name()] = in.decls[f].Pos()
		var row [256][]Outcome
		d := in.decls[f]
		for b := 0; b < 256; b++ {
			fr := &frame{env: map[types.Object]val{}}
			pi := 0
			for _, fl := range d.Type.Params.List {
				for _, n := range fl.Names {
					if n.Name != "_" {
						if pi == 0 {
							fr.env[pkg.TypesInfo.Defs[n]] = val{isS: true, nilness: 2}
						} else {
							fr.env[pkg.TypesInfo.Defs[n]] = val{known: true, c: constant.MakeInt64(int64(b))}
						}
					}
					pi++
				}
			}
			rs := in.execBlock(fr, []state{{}}, d.Body.List)
			seen := map[string]bool{}
			for _, r := range rs {
				if !r.done {
					in.unsup[fmt.Sprintf("%s: step function %s can fall off its end", pkg.Fset.Position(d.Pos()), f.Name())] = true
					continue
				}
				if r.term == "unsupported" {
					continue
				}
				if r.term == "" {
					in.unsup[fmt.Sprintf("%s: step function %s returns something that is neither nil, an error nor a delegation", pkg.Fset.Position(d.Pos()), f.Name())] = true
					continue
				}
				o := Outcome{Effs: r.st.effs, Guards: r.st.guards, Term: r.term, ErrOff: r.errOff, ErrCur: r.errCur}
				k := o.String()
				if !seen[k] {
					seen[k] = true
					row[b] = append(row[b], o)
				}
			}
		}
		m.Trans[f.Name()] = row
	}
	for k := range in.unsup {
		m.Unsupported = append(m.Unsupported, k)
	}
	sort.Strings(m.Unsupported)
	m.MaxDepth = in.maxDepth
	return m, nil
}

// callPureRecv evaluates a method with a constant receiver and no arguments.
func (in *interp) callPureRecv(f *types.Func, recv val) *val {
	d := in.decls[f]
	if d == nil || d.Recv == nil || len(d.Recv.List) != 1 || len(d.Recv.List[0].Names) != 1 {
		return nil
	}
	fr := &frame{env: map[types.Object]val{in.pkg.TypesInfo.Defs[d.Recv.List[0].Names[0]]: recv}}
	save, saveDepth := in.unsup, in.maxDepth
	in.unsup = map[string]bool{}
	rs := in.execBlock(fr, []state{{}}, d.Body.List)
	bad := len(in.unsup) > 0
	in.unsup, in.maxDepth = save, saveDepth
	if bad {
		return nil
	}
	var out *val
	for _, r := range rs {
		if !r.done || len(r.ret) != 1 || !r.ret[0].known {
			return nil
		}
		if out != nil && constant.Compare(out.c, token.NEQ, r.ret[0].c) {
			return nil
		}
		v := r.ret[0]
		out = &v
	}
	return out
}

// stepFuncResults: the expression is a call of a function of the package whose every return statement returns a step
// function by name (or the result of another such call): the step functions it can return. Which one is returned
// depends on data (the parameters of the directive), which the model leaves free -- exactly as it does for an
// `if <data-dependent predicate> { push(a) } else { push(b) }` written in place. The callee must not touch the scanner
// state the model tracks (it may only call the pure predicates).
func (in *interp) stepFuncResults(e ast.Expr, depth int) []*types.Func {
	call, ok := ast.Unparen(e).(*ast.CallExpr)
	if !ok || depth > 2 {
		return nil
	}
	f := in.callee(call)
	if f == nil || f.Pkg() != in.pkg.Types || in.decls[f] == nil || in.isStep(f) {
		return nil
	}
	d := in.decls[f]
	if d.Type.Results == nil || len(d.Type.Results.List) != 1 || len(d.Type.Results.List[0].Names) != 0 {
		return nil
	}
	// no effect on tracked state: no assignment to a scanner field, no foundAt/Push/Pop, no call of a step function
	clean := true
	ast.Inspect(d.Body, func(n ast.Node) bool {
		switch x := n.(type) {
		case *ast.AssignStmt:
			for _, l := range x.Lhs {
				if in.fieldOf(l) != nil {
					clean = false
				}
			}
		case *ast.IncDecStmt:
			if in.fieldOf(x.X) != nil {
				clean = false
			}
		case *ast.CallExpr:
			if g := in.callee(x); g != nil && (g == in.mFoundAt || g == in.mPush || g == in.mPop || in.isStep(g)) {
				clean = false
			}
			if fld := in.fieldOf(x.Fun); fld != nil && fld == in.fStep {
				clean = false
			}
		}
		return true
	})
	if !clean {
		return nil
	}
	seen := map[*types.Func]bool{}
	var out []*types.Func
	good := true
	ast.Inspect(d.Body, func(n ast.Node) bool {
		if _, isLit := n.(*ast.FuncLit); isLit {
			return false
		}
		ret, isRet := n.(*ast.ReturnStmt)
		if !isRet {
			return true
		}
		if len(ret.Results) != 1 {
			good = false
			return true
		}
		if id, isId := ast.Unparen(ret.Results[0]).(*ast.Ident); isId {
			if fn, isFn := in.pkg.TypesInfo.Uses[id].(*types.Func); isFn && in.isStep(fn) {
				if !seen[fn] {
					seen[fn] = true
					out = append(out, fn)
				}
				return true
			}
		}
		if sub := in.stepFuncResults(ret.Results[0], depth+1); len(sub) > 0 {
			for _, fn := range sub {
				if !seen[fn] {
					seen[fn] = true
					out = append(out, fn)
				}
			}
			return true
		}
		good = false
		return true
	})
	if !good {
		return nil
	}
	return out
}

// nextHasNulGuard: inside Next(), before the call through the step field, there is
// an `if <byte> == 0 { return nil, <non-nil> }` -- in Next itself, or in a helper of the package whose error Next
// tests and returns (`c, je := s.currentByte(); if je != nil { return nil, je }`).
func (in *interp) nextHasNulGuard(next *types.Func) bool {
	return in.nulGuardIn(next, 0)
}

func (in *interp) nulGuardIn(fn *types.Func, depth int) bool {
	if fn == nil || in.decls[fn] == nil || depth > 2 {
		return false
	}
	body := in.decls[fn].Body
	isZero := func(e ast.Expr) bool {
		tv, ok := in.pkg.TypesInfo.Types[e]
		if !ok || tv.Value == nil {
			return false
		}
		v, ok := constant.Int64Val(constant.ToInt(tv.Value))
		return ok && v == 0
	}
	isByte := func(e ast.Expr) bool {
		t := in.pkg.TypesInfo.TypeOf(e)
		if t == nil {
			return false
		}
		b, ok := t.Underlying().(*types.Basic)
		return ok && b.Kind() == types.Uint8
	}
	returnsErr := func(list []ast.Stmt) bool {
		for _, s := range list {
			if r, ok := s.(*ast.ReturnStmt); ok && len(r.Results) >= 1 && !isNilIdent(r.Results[len(r.Results)-1]) {
				return true
			}
		}
		return false
	}
	found := false
	ast.Inspect(body, func(n ast.Node) bool {
		ifs, ok := n.(*ast.IfStmt)
		if !ok {
			return true
		}
		be, ok := ast.Unparen(ifs.Cond).(*ast.BinaryExpr)
		if !ok || be.Op != token.EQL {
			return true
		}
		if !((isZero(be.Y) && isByte(be.X)) || (isZero(be.X) && isByte(be.Y))) {
			return true
		}
		if returnsErr(ifs.Body.List) {
			found = true
		}
		return true
	})
	if found {
		return true
	}
	// a helper whose error is tested and returned
	ast.Inspect(body, func(n ast.Node) bool {
		as, ok := n.(*ast.AssignStmt)
		if !ok || len(as.Rhs) != 1 || len(as.Lhs) < 1 {
			return true
		}
		call, ok := ast.Unparen(as.Rhs[0]).(*ast.CallExpr)
		if !ok {
			return true
		}
		g := in.callee(call)
		if g == nil || in.decls[g] == nil || in.isStep(g) {
			return true
		}
		eid, ok := as.Lhs[len(as.Lhs)-1].(*ast.Ident)
		if !ok || eid.Name == "_" {
			return true
		}
		eobj := in.pkg.TypesInfo.Defs[eid]
		if eobj == nil {
			eobj = in.pkg.TypesInfo.Uses[eid]
		}
		tested := false
		ast.Inspect(body, func(m ast.Node) bool {
			ifs, ok := m.(*ast.IfStmt)
			if !ok || ifs.Pos() < as.End() {
				return true
			}
			be, ok := ast.Unparen(ifs.Cond).(*ast.BinaryExpr)
			if !ok || be.Op != token.NEQ || !isNilIdent(be.Y) {
				return true
			}
			if id, ok := ast.Unparen(be.X).(*ast.Ident); ok && in.pkg.TypesInfo.Uses[id] == eobj && returnsErr(ifs.Body.List) {
				tested = true
			}
			return true
		})
		if tested && in.nulGuardIn(g, depth+1) {
			found = true
		}
		return true
	})
	return found
}
